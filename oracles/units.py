"""Independent unit table: dimension vector and factor to CGS for every unit symbol the
checks use.  Values typed in from the SI brochure, IAU 2012/2015 resolutions and CODATA;
nothing here is obtained from pint or from osyris' defaults.py.  pint is used by the
checks only to split the unit label osyris returns into {symbol: exponent}."""
import math
from fractions import Fraction

# dimension order: L (cm), M (g), T (s), K (kelvin), I (gauss, kept as its own axis)
L, M, T, K, G = (1, 0, 0, 0, 0), (0, 1, 0, 0, 0), (0, 0, 1, 0, 0), (0, 0, 0, 1, 0), (0, 0, 0, 0, 1)
ZERO = (0, 0, 0, 0, 0)


def _d(**k):
    v = [0, 0, 0, 0, 0]
    for name, e in k.items():
        v["LMTKG".index(name)] = e
    return tuple(v)


AU_CM = 1.495978707e13                     # IAU 2012 B2, exact
PC_CM = AU_CM * 648000.0 / math.pi         # IAU 2015 B2
YEAR_S = 365.25 * 86400.0                  # Julian year
ERG = _d(L=2, M=1, T=-2)

TABLE = {
    # name: (factor to CGS, dimension)
    "dimensionless": (1.0, ZERO),
    "percent": (0.01, ZERO),
    "radian": (1.0, ZERO),
    "centimeter": (1.0, L),
    "meter": (100.0, L),
    "kilometer": (1.0e5, L),
    "millimeter": (0.1, L),
    "astronomical_unit": (AU_CM, L),
    "parsec": (PC_CM, L),
    "kiloparsec": (PC_CM * 1000.0, L),
    "light_year": (2.99792458e10 * YEAR_S, L),
    "gram": (1.0, M),
    "kilogram": (1000.0, M),
    "second": (1.0, T),
    "minute": (60.0, T),
    "hour": (3600.0, T),
    "day": (86400.0, T),
    "year": (YEAR_S, T),
    "kiloyear": (YEAR_S * 1000.0, T),
    "megayear": (YEAR_S * 1.0e6, T),
    "kelvin": (1.0, K),
    "erg": (1.0, ERG),
    "joule": (1.0e7, ERG),
    "watt": (1.0e7, _d(L=2, M=1, T=-3)),
    "dyne": (1.0, _d(L=1, M=1, T=-2)),
    "newton": (1.0e5, _d(L=1, M=1, T=-2)),
    "pascal": (10.0, _d(L=-1, M=1, T=-2)),
    "barye": (1.0, _d(L=-1, M=1, T=-2)),
    "hertz": (1.0, _d(T=-1)),
    "gauss": (1.0, G),
    # units osyris defines itself (accepted physical values; IAU 2015 B3 nominal values,
    # CODATA 2018 G = 6.67430e-8 cgs for the masses: GM_sun = 1.3271244e26 cm3/s2 ...)
    "solar_mass": (1.3271244e26 / 6.67430e-8, M),          # 1.98841e33 g
    "earth_mass": (3.986004e20 / 6.67430e-8, M),           # 5.9722e27 g
    "jupiter_mass": (1.2668653e23 / 6.67430e-8, M),        # 1.89813e30 g
    "solar_radius": (6.957e10, L),
    "earth_radius": (6.3781e8, L),
    "jupiter_radius": (7.1492e9, L),
    "solar_luminosity": (3.828e33, _d(L=2, M=1, T=-3)),
    "bolometric_luminosity": (3.0128e35, _d(L=2, M=1, T=-3)),
    # a = 4 sigma / c ; sigma = 5.670374419e-5 erg cm-2 s-1 K-4, c = 2.99792458e10 cm/s
    "radiation_constant": (4 * 5.670374419e-5 / 2.99792458e10, _d(L=-1, M=1, T=-2, K=-4)),
}

# spellings osyris / pint accept for the same unit (checked in C08)
ALIASES = {
    "solar_mass": ["M_sun", "M_sol", "solar_mass"],
    "earth_mass": ["M_earth", "earth_mass"],
    "jupiter_mass": ["M_jup", "jupiter_mass"],
    "solar_radius": ["R_sun", "R_sol", "solar_radius"],
    "earth_radius": ["R_earth", "earth_radius"],
    "jupiter_radius": ["R_jup", "jupiter_radius"],
    "solar_luminosity": ["L_sun", "L_sol", "solar_luminosity"],
    "bolometric_luminosity": ["L_bol0", "bolometric_luminosity"],
    "radiation_constant": ["ar", "radiation_constant"],
    "centimeter": ["cm", "centimeter"],
    "meter": ["m", "meter", "metre"],
    "astronomical_unit": ["au", "astronomical_unit"],
    "parsec": ["pc", "parsec"],
    "gram": ["g", "gram"],
    "year": ["yr", "year"],
}


class UnknownUnit(Exception):
    pass


def decompose(unit):
    """{canonical symbol: exponent} of a pint Unit (pint used as a label parser only)."""
    return {str(k): (int(v) if float(v).is_integer() else float(v)) for k, v in dict(unit._units).items()}


def factor_dim(unit):
    """(factor to CGS as float, dimension vector as tuple of Fractions) of a pint Unit."""
    f = 1.0
    dim = [Fraction(0)] * 5
    for sym, e in decompose(unit).items():
        if sym not in TABLE:
            raise UnknownUnit(sym)
        bf, bd = TABLE[sym]
        f *= bf ** e
        ee = Fraction(e).limit_denominator(12)
        dim = [d + ee * b for d, b in zip(dim, bd)]
    return f, tuple(dim)


def dim_mul(a, b):
    return tuple(x + y for x, y in zip(a, b))


def dim_pow(a, k):
    kk = Fraction(k).limit_denominator(12)
    return tuple(x * kk for x in a)


def dim_inv(a):
    return tuple(-x for x in a)


# units defined by osyris' own configuration: their published values differ between sources
# at the 1e-4 level (e.g. M_sun 1.9884e33 vs 1.9889e33 g), so quantities expressed in them are
# compared with relative tolerance 1e-3 instead of 1e-9
LOOSE = {"solar_mass", "earth_mass", "jupiter_mass", "solar_radius", "earth_radius", "jupiter_radius",
         "solar_luminosity", "bolometric_luminosity", "radiation_constant"}


def tol_for(*units, default=None):
    for u in units:
        if u is None:
            continue
        if any(sym in LOOSE for sym in decompose(u)):
            return 1e-3
    return default
