"""RAMSES output layout, written from RAMSES' own output routines (amr/output_amr.f90
backup_amr, hydro/output_hydro.f90 backup_hydro, poisson/output_poisson.f90, rt/rt_output_hydro.f90,
pm/output_part.f90) -- NOT from osyris' readers.  Every Fortran unformatted record is a
4-byte length, the payload, and the 4-byte length again.

One generator, two instantiations:
  * concrete: struct.pack -> real files (replays, shadow validation);
  * symbolic: record counts and payloads may be terms; the byte position of record r is
    sum_{q<r} (len_q + 8); a block of ghost/boundary grids whose count n is symbolic
    contributes If(n > 0, bytes(n), 0).
"""
import os
import struct

SIZE = {"i": 4, "d": 8, "s": 1, "b": 1, "q": 8}


class Rec:
    """One Fortran record: `count` items of type `typ`; payload = list of items or None (don't care)."""

    def __init__(self, name, typ, count, payload=None):
        self.name, self.typ, self.count, self.payload = name, typ, count, payload

    def nbytes(self):
        return self.count * SIZE[self.typ]

    def __repr__(self):
        return f"Rec({self.name},{self.typ}x{self.count})"


class Cond:
    """A block of records present only when n > 0 (grids of a domain at a level when their number n is
    symbolic).  parts: list of (typ, number of records, items per record as multiple of n)."""

    def __init__(self, name, n, parts):
        self.name, self.n, self.parts = name, n, parts

    def nrecords(self):
        return sum(c for _, c in self.parts)

    def bytes_per_grid(self):
        return sum(SIZE[t] * c for t, c in self.parts)


class Oct:
    """An oct (grid) of the AMR tree.
    level: 1-based; xg: centre, ndim numbers in coarse-grid units (terms or floats);
    owner: 0-based domain; son[ind]: child Oct or None; sonidx[ind]: what the file stores (>0 iff refined);
    vals[kind][var][ind]: stored cell values."""

    def __init__(self, level, xg, owner, ndim):
        self.level, self.xg, self.owner = level, xg, owner
        self.son = [None] * (2 ** ndim)
        self.sonidx = [0] * (2 ** ndim)
        self.vals = {}
        self.tag = ""


def amr_records(cfg, octs, F):
    """Records of amr_NNNNN.outKKKKK.
    cfg: ncpu, ndim, levelmax, nboundary, nxyz, noutput, key_size (ints or terms)
    octs[dom][lev0] = list of Oct (this file's own grids) or a count (int/term) of foreign grids
    F: factory with F.int(name), F.real(name) for don't-care-but-named payloads (returns None to skip)."""
    ncpu, ndim, L, nb = cfg["ncpu"], cfg["ndim"], cfg["levelmax"], cfg["nboundary"]
    nx, ny, nz = cfg["nxyz"]
    two = 2 ** ndim
    I = lambda name, n, payload=None: Rec(name, "i", n, payload)
    D = lambda name, n, payload=None: Rec(name, "d", n, payload)

    def count(dom, l):
        x = octs[dom][l]
        return len(x) if isinstance(x, list) else x
    noutput = cfg["noutput"]
    recs = [I("ncpu", 1, [ncpu]), I("ndim", 1, [ndim]), I("nxyz", 3, [nx, ny, nz]), I("nlevelmax", 1, [L]),
            I("ngridmax", 1), I("nboundary", 1, [nb]), I("ngrid_current", 1), D("boxlen", 1),
            I("noutput_iout_ifout", 3, [noutput, F.int("iout"), F.int("ifout")]),
            D("tout", noutput), D("aout", noutput), D("t", 1),
            D("dtold", L, [F.real(f"dtold{j}") for j in range(L)]), D("dtnew", L, [F.real(f"dtnew{j}") for j in range(L)]),
            I("nstep", 2), D("const_mass_rho", 3), D("cosmo", 7), D("aexp_etc", 5), D("mass_sph", 1),
            I("headl", ncpu * L), I("taill", ncpu * L),
            I("numbl", ncpu * L, [count(d, l) for l in range(L) for d in range(ncpu)]),
            I("numbtot", 10 * L)]
    if nb > 0:
        recs += [I("headb", nb * L), I("tailb", nb * L),
                 I("numbb", nb * L, [count(ncpu + d, l) for l in range(L) for d in range(nb)])]
    recs += [I("headf_etc", 5), Rec("ordering", "s", 128), Rec("bound_key", "s", cfg["key_size"])]
    ncoarse = nx * ny * nz
    recs += [I("son_coarse", ncoarse), I("flag_coarse", ncoarse), I("cpumap_coarse", ncoarse)]
    for l in range(L):
        for dom in range(ncpu + nb):
            x = octs[dom][l]
            tag = f"L{l}D{dom}"
            if isinstance(x, list):
                n = len(x)
                if n == 0:
                    continue
                recs += [I(tag + "ind_grid", n), I(tag + "next", n), I(tag + "prev", n)]
                for k in range(ndim):
                    recs.append(D(tag + f"xg{k}", n, [o.xg[k] for o in x]))
                recs.append(I(tag + "father", n))
                for k in range(2 * ndim):
                    recs.append(I(tag + f"nbor{k}", n))
                for ind in range(two):
                    recs.append(I(tag + f"son{ind}", n, [o.sonidx[ind] for o in x]))
                for ind in range(two):
                    recs.append(I(tag + f"cpumap{ind}", n))
                for ind in range(two):
                    recs.append(I(tag + f"flag{ind}", n))
            else:
                recs.append(Cond(tag, x, [("i", 3), ("d", ndim), ("i", 1 + 2 * ndim + 3 * two)]))
    return recs


def var_records(cfg, kind, varnames, octs, F):
    """Records of hydro_ / grav_ / rt_ files: header, then per (level, domain): ilevel, ncache and, if
    ncache > 0, for every cell index and every variable one record of ncache doubles."""
    ncpu, ndim, L, nb = cfg["ncpu"], cfg["ndim"], cfg["levelmax"], cfg["nboundary"]
    two = 2 ** ndim
    I = lambda name, n, payload=None: Rec(kind + ":" + name, "i", n, payload)
    nvar = len(varnames)
    if kind == "hydro":
        recs = [I("ncpu", 1, [ncpu]), I("nvar", 1, [nvar]), I("ndim", 1, [ndim]), I("nlevelmax", 1, [L]), I("nboundary", 1, [nb]),
                Rec("hydro:gamma", "d", 1, [F.real("gamma")])]
    elif kind == "grav":
        recs = [I("ncpu", 1, [ncpu]), I("nvar", 1, [nvar]), I("nlevelmax", 1, [L]), I("nboundary", 1, [nb])]
    elif kind == "rt":
        recs = [I("ncpu", 1, [ncpu]), I("nrtvar", 1, [nvar]), I("ndim", 1, [ndim]), I("nlevelmax", 1, [L]), I("nboundary", 1, [nb]),
                Rec("rt:gamma", "d", 1, [F.real("rtgamma")])]
    else:
        raise ValueError(kind)
    for l in range(L):
        for dom in range(ncpu + nb):
            x = octs[dom][l]
            n = len(x) if isinstance(x, list) else x
            recs += [I(f"L{l}D{dom}ilevel", 1, [l + 1]), I(f"L{l}D{dom}ncache", 1, [n])]
            if isinstance(x, list):
                if n == 0:
                    continue
                for ind in range(two):
                    for v in varnames:
                        recs.append(Rec(f"{kind}:L{l}D{dom}{v}[{ind}]", "d", n, [o.vals[kind][v][ind] for o in x]))
            else:
                recs.append(Cond(f"{kind}:L{l}D{dom}", n, [("d", two * nvar)]))
    return recs


def part_records(cfg, columns, npart, header_lens, F):
    """part_NNNNN.outKKKKK: ncpu, ndim, npart, then localseed, nstar_tot, mstar_tot, mstar_lost, nsink
    (five records whose lengths the loader reads from their markers), then one record per variable.
    columns: list of (name, typ, payload list or None); header_lens: 5 byte lengths (ints or terms)."""
    recs = [Rec("part:ncpu", "i", 1, [cfg["ncpu"]]), Rec("part:ndim", "i", 1, [cfg["ndim"]]), Rec("part:npart", "i", 1, [npart])]
    for j, hl in enumerate(header_lens):
        recs.append(Rec(f"part:header{j}", "b", hl))
    for name, typ, payload in columns:
        recs.append(Rec("part:" + name, typ, npart, payload))
    return recs


# ----------------------------------------------------------------------------- concrete writers


def write_concrete(recs, fname, default=0):
    """Write records to a real file.  Payload items must be concrete numbers; None payload -> zeros
    (strings -> spaces).  Cond blocks must have a concrete n (n == 0 -> nothing, n > 0 -> zero-filled)."""
    with open(fname, "wb") as f:
        for r in recs:
            if isinstance(r, Cond):
                n = int(r.n)
                if n > 0:
                    for typ, cnt in r.parts:
                        for _ in range(cnt):
                            nb = n * SIZE[typ]
                            f.write(struct.pack("i", nb) + b"\0" * nb + struct.pack("i", nb))
                continue
            cnt = int(r.count)
            nb = cnt * SIZE[r.typ]
            f.write(struct.pack("i", nb))
            if r.payload is None or r.typ == "s":
                f.write((b" " if r.typ == "s" else b"\0") * nb)
            else:
                vals = [default if v is None else v for v in r.payload]
                if r.typ == "b":
                    f.write(struct.pack(f"{cnt}b", *[int(v) for v in vals]))
                elif r.typ in ("i", "q"):
                    f.write(struct.pack(f"{cnt}{r.typ}", *[int(v) for v in vals]))
                else:
                    f.write(struct.pack(f"{cnt}{r.typ}", *[float(v) for v in vals]))
            f.write(struct.pack("i", nb))


def write_info(cfg, d, nout, bound_keys=None, time=0.5):
    os.makedirs(d, exist_ok=True)
    num = str(nout).zfill(5)
    with open(os.path.join(d, f"info_{num}.txt"), "w") as f:
        f.write(f"ncpu        = {cfg['ncpu']:10d}\nndim        = {cfg['ndim']:10d}\nlevelmin    = {cfg['levelmin']:10d}\n"
                f"levelmax    = {cfg['levelmax']:10d}\nngridmax    =     100000\nnstep_coarse=          1\n\n")
        f.write(f"boxlen      =  {cfg['boxlen']!r}\ntime        =  {time!r}\naexp        =  1.0\nH0          =  1.0\n"
                f"omega_m     =  1.0\nomega_l     =  0.0\nomega_k     =  0.0\nomega_b     =  0.0\n")
        f.write(f"unit_l      =  {cfg['unit_l']!r}\nunit_d      =  {cfg['unit_d']!r}\nunit_t      =  {cfg['unit_t']!r}\n\n")
        f.write(f"ordering type={cfg.get('ordering', 'hilbert')}\n")
        if bound_keys is not None:
            f.write("   DOMAIN   ind_min                 ind_max\n")
            for i in range(cfg["ncpu"]):
                f.write(f"{i + 1:8d} {float(bound_keys[i])!r} {float(bound_keys[i + 1])!r}\n")


def write_descriptor(d, kind, names, types=None):
    with open(os.path.join(d, f"{kind}_file_descriptor.txt"), "w") as f:
        f.write("# version:  1\n# ivar, variable_name, variable_type\n")
        for i, n in enumerate(names):
            f.write(f"  {i + 1}, {n}, {(types or ['d'] * len(names))[i]}\n")
