#!/bin/bash
# Build the overlay venv (/venv's packages + z3-solver + crosshair-tool), offline.
set -e
V=/verif/.venv
if [ -x "$V/bin/python" ] && "$V/bin/python" -c 'import z3, crosshair, osyris, numpy' 2>/dev/null; then
  exit 0
fi
rm -rf "$V"
/venv/bin/python -m venv "$V"
SP=$("$V/bin/python" -c 'import sysconfig; print(sysconfig.get_paths()["purelib"])')
echo "import site; site.addsitedir('/venv/lib/python3.12/site-packages')" > "$SP/overlay.pth"
PIP_NO_INDEX=1 "$V/bin/pip" install -q --no-index --find-links /opt/veriftools/wheels z3-solver crosshair-tool
"$V/bin/python" -c 'import z3, crosshair, numpy; print("overlay ok", z3.get_version_string())'
