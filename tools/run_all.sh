#!/bin/bash
# tools/run_all.sh [quick|thorough] [IDs...] : run the registered checks, print exit code, wall time and ENGINE/VIOLATION line counts
cd "$(dirname "$0")/.."
tier=${1:-quick}; shift
ids=${@:-C01 C02 C03 C04 C05 C06 C07 C08 C09 C10 C11 C12 C13 C14 C15 C16 C17 C18 C19 C20}
for p in $ids; do
  s=$(date +%s)
  ./check $p --tier $tier > /tmp/run_all_$p.out 2>&1; rc=$?
  e=$(( $(date +%s) - s ))
  echo "$p exit=$rc ${e}s engine_lines=$(grep -c '^ENGINE' /tmp/run_all_$p.out) violations=$(grep -c '^VIOLATION' /tmp/run_all_$p.out) known=$(grep -c '^KNOWN-FINDING' /tmp/run_all_$p.out) | $(tail -1 /tmp/run_all_$p.out | cut -c1-150)"
done
