#!/usr/bin/env python3
"""Evaluate a seeded breaking change: tools/eval_seed.py <seed-name> <property-id>[,<id>...] <dir with patch.diff, demo.py, notes.md>
 1. the patch applies to /repo, the pinned test suite passes with it, the demo fails with it and passes without it;
 2. the registered quick checks of the given properties are run with the patch applied;
 3. /repo is restored (git checkout -- .) whatever happens.
Writes /verif/seeded/<seed-name>/{patch.diff, demo.py, notes.md, meta.json}."""
import json
import os
import shutil
import subprocess
import sys
import time

name, props, src = sys.argv[1], sys.argv[2].split(","), sys.argv[3]
dst = f"/verif/seeded/{name}"
os.makedirs(dst, exist_ok=True)
for f in ("patch.diff", "demo.py", "notes.md"):
    if os.path.exists(os.path.join(src, f)) and os.path.abspath(src) != os.path.abspath(dst):
        shutil.copy(os.path.join(src, f), os.path.join(dst, f))
REPO = os.environ.get("SEED_REPO", "/repo")        # a scratch worktree can be used so that /repo stays untouched
home = "/verif/.scratch/seedhome"
os.makedirs(home, exist_ok=True)
env = dict(os.environ, HOME=home, MPLBACKEND="Agg", PYTHONPATH=REPO + "/src")


def sh(cmd, **kw):
    p = subprocess.run(cmd, shell=True, capture_output=True, text=True, env=env, **kw)
    return p.returncode, (p.stdout + p.stderr)


meta = {"seed": name, "breaks": props, "ran": []}
rc0, _ = sh(f"cd {REPO} && git status --porcelain --untracked-files=no")
assert _.strip() == "", "repo not clean: " + _
try:
    rc, o = sh(f"cd {REPO} && /venv/bin/python {dst}/demo.py")
    meta["demo_without_patch_rc"] = rc
    rc, o = sh(f"git -C {REPO} apply {dst}/patch.diff")
    assert rc == 0, "patch does not apply: " + o
    rc, o = sh(f"cd {REPO} && /venv/bin/python -m pytest -q -p no:cacheprovider 2>&1 | tail -1")
    meta["suite_with_patch"] = o.strip()
    rc, o = sh(f"cd {REPO} && /venv/bin/python {dst}/demo.py")
    meta["demo_with_patch_rc"] = rc
    meta["demo_with_patch_tail"] = o.strip()[-300:]
    for p in props:
        t = time.time()
        pr = subprocess.run(f"cd /verif && ./check {p} --tier quick", shell=True, capture_output=True, text=True,
                            env=dict(os.environ, PYTHONPATH=REPO + "/src", VERIF_EVIDENCE_DIR="/verif/.scratch/evidence_eval"))
        lines = [l for l in pr.stdout.splitlines() if l.startswith(("VIOLATION", "KNOWN-FINDING", "ENGINE", "[")) or l.startswith("  C")]
        viol = [l for l in pr.stdout.splitlines() if l.startswith("VIOLATION")]
        detail = [l.strip()[:240] for l in pr.stdout.splitlines() if l.startswith("  C")][:3]
        meta["ran"].append({"check": f"./check {p} --tier quick", "exit": pr.returncode, "violations": len(viol), "first": detail,
                            "summary": [l for l in pr.stdout.splitlines() if l.startswith("[")][-1:], "seconds": round(time.time() - t, 1),
                            "engine_lines": [l[:200] for l in pr.stdout.splitlines() if l.startswith("ENGINE")][:3]})
finally:
    sh(f"git -C {REPO} checkout -- .")
meta["needs"] = open(os.path.join(dst, "notes.md")).read()[:1500] if os.path.exists(os.path.join(dst, "notes.md")) else ""
meta["valid_seed"] = (meta.get("demo_without_patch_rc") == 0 and meta.get("demo_with_patch_rc", 0) != 0 and "passed" in meta.get("suite_with_patch", "")
                      and "failed" not in meta.get("suite_with_patch", ""))
meta["caught"] = any(r["exit"] == 1 and r["violations"] > 0 for r in meta["ran"])
json.dump(meta, open(os.path.join(dst, "meta.json"), "w"), indent=1)
print(json.dumps({k: meta[k] for k in ("seed", "valid_seed", "caught", "suite_with_patch", "demo_without_patch_rc", "demo_with_patch_rc")}))
for r in meta["ran"]:
    print("  ", r["check"], "exit", r["exit"], "violations", r["violations"], r["summary"], r["first"][:1], r["engine_lines"][:1])
