#!/usr/bin/env python3
"""Evaluate a behaviour-preserving refactoring: tools/eval_refactor.py <name> <dir with patch.diff, notes.md> [IDs,comma]
The patch is applied to a scratch worktree (SEED_REPO, default /tmp/repo_eval), the pinned suite must pass, then the registered
quick checks run against it.  Expected: exit 0 everywhere.  exit 1 = the check raised an alarm on code where the property
(presumably) holds -> to be triaged; exit 2 = the harness could not follow the new code (no verdict).
Writes /verif/refactorings/<name>/{patch.diff, notes.md, meta.json}."""
import json
import os
import shutil
import subprocess
import sys
import time

name, src = sys.argv[1], sys.argv[2]
ids = sys.argv[3].split(",") if len(sys.argv) > 3 else [f"C{i:02d}" for i in range(1, 21)]
dst = f"/verif/refactorings/{name}"
os.makedirs(dst, exist_ok=True)
for f in ("patch.diff", "notes.md"):
    if os.path.exists(os.path.join(src, f)) and os.path.abspath(src) != os.path.abspath(dst):
        shutil.copy(os.path.join(src, f), os.path.join(dst, f))
REPO = os.environ.get("SEED_REPO", "/tmp/repo_eval")
home = "/verif/.scratch/seedhome"
os.makedirs(home, exist_ok=True)
env = dict(os.environ, HOME=home, MPLBACKEND="Agg", PYTHONPATH=REPO + "/src")


def sh(cmd):
    p = subprocess.run(cmd, shell=True, capture_output=True, text=True, env=env)
    return p.returncode, p.stdout + p.stderr


meta = {"refactoring": name, "ran": []}
rc, o = sh(f"cd {REPO} && git status --porcelain --untracked-files=no")
assert o.strip() == "", "repo not clean: " + o
try:
    rc, o = sh(f"git -C {REPO} apply {dst}/patch.diff")
    assert rc == 0, "patch does not apply: " + o
    rc, o = sh(f"cd {REPO} && /venv/bin/python -m pytest -q -p no:cacheprovider 2>&1 | tail -1")
    meta["suite_with_patch"] = o.strip()
    for p in ids:
        t = time.time()
        pr = subprocess.run(f"cd /verif && ./check {p} --tier quick", shell=True, capture_output=True, text=True,
                            env=dict(os.environ, PYTHONPATH=REPO + "/src", VERIF_EVIDENCE_DIR="/verif/.scratch/evidence_eval"))
        out = pr.stdout.splitlines()
        meta["ran"].append({"check": p, "exit": pr.returncode, "violations": sum(l.startswith("VIOLATION") for l in out),
                            "first": [l.strip()[:300] for l in out if l.startswith("  C")][:3],
                            "engine_lines": [l[:300] for l in out if l.startswith("ENGINE")][:3], "seconds": round(time.time() - t, 1)})
        print(p, "exit", pr.returncode, flush=True)
finally:
    sh(f"git -C {REPO} checkout -- .")
meta["alarms"] = [r["check"] for r in meta["ran"] if r["exit"] == 1]
meta["no_verdict"] = [r["check"] for r in meta["ran"] if r["exit"] not in (0, 1)]
json.dump(meta, open(os.path.join(dst, "meta.json"), "w"), indent=1)
print(json.dumps({k: meta[k] for k in ("refactoring", "suite_with_patch", "alarms", "no_verdict")}))
