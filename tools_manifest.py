#!/usr/bin/env python3
"""Regenerates MANIFEST.json from the table below (kept as code so that the per-check
texts stay consistent)."""
import json

CHECKS = {}
NA = {}


def chk(pid, text, note, technique, design):
    CHECKS[pid] = {
        "property_id": pid,
        "quick_cmd": f"./check {pid} --tier quick",
        "thorough_cmd": f"./check {pid} --tier thorough",
        "evidence_file": f"/verif/evidence/{pid}.json",
        "replay_cmd_template": f"./check {pid} --replay {{path}}",
        "engine": "symx",
        "level_claimed": {"category": "model_checking", "text": text, "design_ref": design},
        "level_note": note,
        "technique": technique,
    }


TRUST = ("Trusted: z3 5.1, numpy (result dtypes/casting are taken from numpy itself on concrete dummies), pint as a parser of the "
         "unit label, the symx proxies (validated on every run by shadow execution of solver models through the un-instrumented code). "
         "Floats are modelled as reals: rounding, overflow and NaN/inf of symbolic values are outside the claim.")

chk("C02",
    "Bounded symbolic model checking of the implementation: the real Array dunders are executed on arrays whose elements are z3 "
    "variables; for every operator x operand kind x dtype pair x shape pair x unit pair of the stated finite skeleton the solver proves "
    "(unsat of the negation, LRA/NRA) that the result is physically equal to the operation on the quantities, for ALL element values. "
    "Counterexamples are replayed on the un-instrumented code before being reported.",
    TRUST + " Division-by-zero and sqrt-of-negative paths are cut.",
    "symbolic execution of the real Array operators on z3-backed numpy proxies; SMT validity of physical equality per path",
    "DESIGN.md section 5 C02")

for pid in ["C01", "C03", "C04", "C05", "C06", "C07", "C08", "C09", "C10", "C11", "C12", "C13", "C14", "C15", "C16",
            "C17", "C18", "C19", "C20"]:
    NA.setdefault(pid, "check under construction in this round (solver-based harness designed in DESIGN.md section 5, not yet registered)")

if __name__ == "__main__":
    import importlib.util, os, sys
    here = os.path.dirname(os.path.abspath(__file__))
    extra = os.path.join(here, "manifest_entries.py")
    if os.path.exists(extra):
        spec = importlib.util.spec_from_file_location("manifest_entries", extra)
        mod = importlib.util.module_from_spec(spec)
        mod.chk, mod.NA, mod.CHECKS, mod.TRUST = chk, NA, CHECKS, TRUST
        spec.loader.exec_module(mod)
    for pid in CHECKS:
        NA.pop(pid, None)
    man = {
        "version": 1,
        "setup_cmd": "./setup.sh",
        "hooks": {"guard": "HAUGBOEL_OSYRIS_VERIF", "enable": "none needed: all instrumentation is injected from /verif into the module "
                  "namespaces of the imported osyris modules at run time; /repo carries no hook code",
                  "baseline_off_cmd": "cd /repo && /venv/bin/python -m pytest -ra -q -p no:cacheprovider --timeout=900 --continue-on-collection-errors",
                  "source_commits": [], "add_only": True},
        "engines": [{"name": "symx", "path": "/verif/symx", "serves_properties": sorted(CHECKS),
                     "kind_free_text": "symbolic execution of the real osyris Python code on z3-backed proxy objects (SReal/SInt/SymArray), "
                     "DFS path forking by re-execution, SMT obligations per path, replay of models on the un-instrumented code"}],
        "checks": [CHECKS[k] for k in sorted(CHECKS)],
        "not_applicable": [{"property_id": k, "reason": v} for k, v in sorted(NA.items())],
        "notes": "See DESIGN.md. Exit 2 of a check means an engine/harness problem (never reported as pass or as VIOLATION).",
    }
    json.dump(man, open(os.path.join(here, "MANIFEST.json"), "w"), indent=1)
    print("checks:", sorted(CHECKS), "n/a:", sorted(NA))
