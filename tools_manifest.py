#!/usr/bin/env python3
"""Regenerates MANIFEST.json from the table below (kept as code so that the per-check
texts stay consistent)."""
import json

CHECKS = {}
NA = {}


def chk(pid, text, note, technique, design):
    CHECKS[pid] = {
        "property_id": pid,
        "quick_cmd": f"./check {pid} --tier quick",
        "thorough_cmd": f"./check {pid} --tier thorough",
        "evidence_file": f"/verif/evidence/{pid}.json",
        "replay_cmd_template": f"./check {pid} --replay {{path}}",
        "engine": "symx",
        "level_claimed": {"category": "model_checking", "text": text, "design_ref": design},
        "level_note": note,
        "technique": technique,
    }


TRUST = ("Trusted: z3 5.1, numpy (result dtypes/casting are taken from numpy itself on concrete dummies), pint as a parser of the "
         "unit label, the symx proxies (validated on every run by shadow execution of solver models through the un-instrumented code). "
         "Floats are modelled as reals: rounding, overflow and NaN/inf of symbolic values are outside the claim.")

chk("C02",
    "Bounded symbolic model checking of the implementation: the real Array dunders are executed on arrays whose elements are z3 "
    "variables; for every operator x operand kind x dtype pair x shape pair x unit pair of the stated finite skeleton the solver proves "
    "(unsat of the negation, LRA/NRA) that the result is physically equal to the operation on the quantities, for ALL element values. "
    "Counterexamples are replayed on the un-instrumented code before being reported.",
    TRUST + " Division-by-zero and sqrt-of-negative paths are cut.",
    "symbolic execution of the real Array operators on z3-backed numpy proxies; SMT validity of physical equality per path",
    "DESIGN.md section 5")

ALG = ("Bounded symbolic model checking of the implementation: the real osyris code runs on arrays whose elements are z3 variables; "
       "for every configuration of the stated finite skeleton (operator, operand kinds, dtypes, shapes, unit pairs) each path's obligation "
       "is discharged by z3 for ALL element values (unsat of the negation); counterexamples are replayed on the un-instrumented code.")

chk("C06", ALG + " Rows carry provenance symbols, so a result row mixing two source rows is a structural mismatch; sort keys are symbolic "
    "and every ordering/tie pattern is a path on which the sorted order is proved from the path condition.",
    TRUST + " Index objects are an enumeration for n<=3 rows (stated in the evidence).",
    "symbolic execution of Datagroup indexing/sortby/insert on z3-backed arrays with provenance symbols; SMT proof of sortedness per ordering path",
    "DESIGN.md section 5")
chk("C07", ALG + " Each element comparison forks, so every verdict pattern is a path; the concrete verdict must be entailed by the path "
    "condition read physically through an independent unit table.",
    TRUST + " A dead band of relative width 1e-9 around equality is left free when a unit conversion is involved.",
    "symbolic execution of the real comparison/logical operators; SMT entailment of each verdict from the path condition", "DESIGN.md section 5")
chk("C08", ALG + " Conversions, round trips and chains are proved for all values and all ordered unit pairs of the table; the catalogue of "
    "osyris-defined units is compared (through Array.to) with independently typed-in IAU/CODATA values.",
    TRUST + " Catalogue tolerance 1e-3 (published values differ at 1e-4); a fresh HOME makes osyris read /repo's defaults.py.",
    "symbolic execution of Array.to/Vector.to; SMT validity of physical equality; finite catalogue comparison", "DESIGN.md section 5")
chk("C09", ALG + " Vector results are compared component-wise with the Array operation executed in the same run; norm, dot and cross are "
    "checked against their algebraic definitions and laws as physical quantities (polynomial identities decided by z3 after monomial abstraction, "
    "falling back to nlsat).",
    TRUST + " Lifting is relative to the Array layer (C02/C07).",
    "symbolic execution of Vector operators, norm, dot, cross; SMT (LRA via sound monomial abstraction, NRA fallback)", "DESIGN.md section 5")
chk("C10", ALG + " The catalogue of ~63 numpy functions is fixed in harness/c10.py; the oracle applies the same function to the operands "
    "expressed in CGS and checks the dimensional rule of the function's class.",
    TRUST + " Functions outside the catalogue are not claimed. Known finding: plain numbers/ndarrays mixed with dimensional Arrays.",
    "symbolic execution of Array._wrap_numpy through the numpy protocols; SMT validity of physical equality + dimensional rule", "DESIGN.md section 5")
chk("C16", ALG + " Positions, origin, radius/sizes and payloads are symbolic; every inside/outside pattern is a path and the kept rows must be "
    "exactly those the path condition places inside the region (physically, with unit conversion).",
    TRUST + " n<=2 rows per group; 3-D.",
    "symbolic execution of extract_sphere/extract_box; SMT entailment of row membership (NRA for the sphere)", "DESIGN.md section 5")
chk("C17", ALG + " In-place operators, copies, deep copies, container copies and slice views are run on shared symbolic data and compared with a "
    "reference aliasing model, including all sequences of <=2 (thorough 3) operations from an 8-letter alphabet.",
    TRUST + " In-place results numpy refuses to cast are outside the premise (cut).",
    "symbolic execution of in-place/copy/view operations against an aliasing reference model; SMT validity per path", "DESIGN.md section 5")
chk("C20", "Dictionary semantics: CrossHair (z3-backed symbolic execution) confirms over all paths one inductive step (arbitrary valid pre-state over keys "
    "{a,b,c}, one of 8 operations with arbitrary arguments) for Datagroup and Dataset against a Python dict model, with a reachability twin per "
    "contract. Equality: the real Datagroup.__eq__ runs on symbolic members; on every path the verdict must be the physical one.",
    TRUST + " CrossHair 0.0.110 trusted; contracts use stand-in values with .shape/.name.",
    "CrossHair contracts (inductive step) + symbolic execution of __eq__ with SMT entailment", "DESIGN.md section 5")

chk("C05", ALG + " (1) the real binning kernel (Python source of the numba kernel, int() = truncation) on symbolic points and limits: the index "
    "computation forks over the bins and on every path each point must be in the bin the path condition places it in, counts and sums must "
    "match; (2) the real histogram2d(plot=False) wrapper (automatic/explicit/Quantity limits, sum/mean, default layer, mask, centres, log axis "
    "with log10 uninterpreted + monotonicity); (3) two-iteration interference analysis of the kernel's prange loop cut out of its AST, a "
    "conflict being replayed on the compiled kernel with all threads.",
    TRUST + " numba is assumed to execute the Python semantics of the loop body per iteration; points exactly on a bin edge are left free.",
    "symbolic execution of hist2d.py_func / histogram2d; SMT (LRA+ToInt); AST-derived two-iteration interference analysis", "DESIGN.md section 5")
chk("C18", ALG + " The normal vector is fully symbolic (all non-zero vectors, both branches of the z == 0 test); orthonormality, orientation and "
    "u x v = n are algebraic identities over square-root variables proved in QF_NRA; top/side: the angular-momentum vector handed to the basis "
    "construction is proved equal to the oracle's sum m r x w over the cells inside the window (every in/out pattern is a path) and the basis "
    "is re-proved for an arbitrary vector in its place (compositional cut).",
    TRUST + " Window omitted: concrete position layouts (symbolic radius under a square root is beyond nlsat in minutes).",
    "symbolic execution of get_direction/VectorBasis; SMT QF_NRA identities", "DESIGN.md section 5")

MAPTXT = ("Compositional bounded symbolic model checking of the real map(): (A) osyris.map(plot=False) runs on symbolic cells/origin/depth with the "
          "numba kernel replaced by a recorder: pre-selection soundness is proved for an ARBITRARY point of the window/slab (QF_NRA), the kernel's "
          "arguments (cells in both bases, half sizes, values, grid of sample points origin + x_i u + y_j v + z_k n, edges, spacings) and the assembly "
          "of the result (centres in the unit of dx, depth reduction, sum scaling/unit, mask, vector layers) are proved term by term; (B) the kernel's "
          "Python source runs on symbolic cells: every sample shows the cell containing it, NaN iff strictly inside none; (C) two-iteration "
          "interference analysis of the prange loop; (D) concrete AMR layouts end to end. Replays are END-TO-END on the un-instrumented map with the "
          "compiled kernel against the point-location oracle.")
chk("C03", MAPTXT, TRUST + " Window size concrete per configuration; magnitudes within 1e6 window sizes; cells do not overlap; faces free; numba "
    "executes the Python semantics of the loop body per iteration.",
    "symbolic execution of map()/evaluate_on_grid.py_func with a recorder cut; SMT (QF_NRA selection, LRA+ToInt kernel); AST-derived interference analysis",
    "DESIGN.md section 5")
chk("C11", MAPTXT + " Thick maps: symbolic dz (one pixel .. 3 windows), number/position of depth samples (rounding condition proved for the symbolic "
    "dz), 8 reductions, resolution dict with/without z.",
    TRUST + " As C03; dz in two ranges (<= window, >= window) so that max(dx,dy,dz) is resolved.",
    "symbolic execution of map(dz=...)/evaluate_on_grid.py_func with a recorder cut; SMT (QF_NRA, LRA+ToInt)", "DESIGN.md section 5")

chk("C19", "Precedence: CrossHair confirms over all paths, for each of the 8 options symbolic at layer and call level (plus all-set / none-set and "
    "all 256 set-masks), that parse_layer / Layer.update give the layer-level value priority, leave the given Layer and its option dict "
    "untouched and share no dict with the result (reachability twin per contract). Non-modification and repeatability: the real map(plot=False) "
    "(thin/thick, resolution int/dict/partial dict/None) and histogram2d(plot=False) run twice on symbolic data with all argument objects "
    "snapshotted (terms, units, names, option fields, dict contents, identities); the second result must be provably equal to the first.",
    TRUST + " histogram1d, scatter and plot are run with a recording axes object passed through their public ax= argument (what they hand to "
    "matplotlib is checked: data, bins/weights precedence, sorting, colour/size; the drawing itself is not). PARTIAL: plot=True paths of "
    "map/histogram2d, scatter with Array sizes and plot(dict) are not covered.",
    "CrossHair contracts on parse_layer/Layer + symbolic execution of map/histogram2d with argument snapshots", "DESIGN.md section 5")

LOADTXT = ("Bounded symbolic model checking of the real loader: RamsesDataset(...).load() runs on SYMBOLIC RAMSES FILES (ramses/layout.py, written from "
           "RAMSES' own output routines): noutput, the width of the bound_key record, the number of ghost/boundary grids in every (file, level, "
           "domain) slot, every stored double, oct centre and son index are z3 symbols. Every struct.unpack is discharged by the record-locator "
           "obligation (aligned, type-correct, in bounds for ALL symbolic sizes: LIA validity) and the loaded groups are compared row by row "
           "(provenance symbols) with the tree oracle: positions, sizes, levels, owners, every stored variable times the unit factor implied by "
           "unit_d/unit_l/unit_t with the dimension of its label, vectors, derived variables, metadata. Counterexamples are replayed END TO END on "
           "real binary files through the un-instrumented loader.")
chk("C01", LOADTXT, TRUST + " Structure enumerated (ndim 1-3, ncpu<=2(3), levels<=3(4), boundary regions<=1(2), 4 tree shapes, 3 variable lists); "
    "text files parsed by osyris' own eval/np.loadtxt on enumerated texts; byte order and >=2GiB records outside.",
    "symbolic execution of the real loader on symbolic files; SMT (LIA record-locator obligations, LRA value obligations)", "DESIGN.md sections 4, 5")

chk("C13", LOADTXT + " Here with select=...: variable lists per group (every all-but-one subset, single hydro variables, partial component sets: the "
    "readers' skip branch is then on the path and covered by the locator obligation), groups as a list / switched off with False (files of "
    "switched-off readers must not be opened). Naming of merged vectors: CrossHair contracts on make_vector_arrays, confirmed over all paths.",
    TRUST + " Not all 2^k variable subsets; naming contracts over names of <= 2 characters + clash candidates with a recording Vector stand-in.",
    "symbolic execution of the loader with variable/group selections on symbolic files; CrossHair contracts for component-name merging", "DESIGN.md section 5")
chk("C14", LOADTXT + " Particle files: the lengths of the five skipped header records and all payloads (double, integer, byte columns in 3 orders) are "
    "symbolic; concatenation over CPU files, row alignment, units, sortby on a float and on an int key (ordering proved from the path condition). "
    "Sink files: numpy.loadtxt replaced by its contract with symbolic entries, both unit-line dialects, one/two sinks, empty and missing file.",
    TRUST + " Particle counts per CPU concrete (0-2); CSV tokenisation is numpy's C code (stubbed by contract).",
    "symbolic execution of PartReader/SinkReader/Loader on symbolic files; SMT (LIA locator, LRA values)", "DESIGN.md section 5")

chk("C12", LOADTXT + " Here with level predicates (l<=k, l<k, l==k, l>=k, a<l<b for every k) alone, combined with a symbolic density threshold, per "
    "file with symbolic ghost counts: meta['lmax'] must be the highest accepted level L, no record of a level above L may be read, the rows must "
    "be the cells of the tree truncated at L that satisfy the predicate (cells at L with their stored coarse values), and when 1..L are "
    "accepted the cell volumes must add up to the box volume.",
    TRUST + " Trees with one branch refined down to levelmax; predicate forms enumerated.",
    "symbolic execution of the loader with level selections on symbolic files; SMT (LIA locator, LRA values/volumes)", "DESIGN.md section 5")
chk("C15", LOADTXT + " Here sequences of load() calls on ONE dataset (all ordered pairs, thorough: triples, over an 8-call alphabet: full, part-only, "
    "variable subset, value / position / level predicate, cpu_list, sortby) are compared group by group with fresh datasets executing only the "
    "relevant call; groups from earlier calls must be the same objects, unchanged; metadata counts must match.",
    TRUST + " Densities assumed increasing and stored centres true so that predicates do not multiply the paths.",
    "symbolic execution of load() call sequences vs fresh datasets on symbolic files; SMT equality of the resulting terms", "DESIGN.md section 5")

chk("C04", "Bounded symbolic model checking in four parts, all on the real code: (a) structure of _hilbert3d on symbolic integer coordinates (the bit tests "
    "fork, so the solver walks every cell): range, prefix property, injectivity; (b) _get_cpu_list with a symbolic bounding box and a symbolic increasing "
    "key table: the search cubes cover the box and no CPU whose key interval meets a search cube's key range is left out (LIA/LRA); (c) "
    "hilbert_cpu_list's derived box contains every cell centre of any level satisfying interval predicates with symbolic bounds; (d) end to end on "
    "symbolic files (C01 machinery): value predicates with symbolic thresholds, position predicates with symbolic bounds, combined, explicit cpu_list, "
    "Hilbert and non-Hilbert ordering: rows = rows of the full load satisfying all predicates, values identical.",
    TRUST + " PARTIAL: the cell key is osyris' own _hilbert3d (no independent RAMSES offline); end-to-end outputs have ALIGNED decompositions (every stored "
    "cell keyed inside its file's CPU interval) -- boxes smaller than a leaf's father cell at a domain boundary, and 2-D/1-D Hilbert decompositions "
    "(RAMSES uses hilbert2d) are NOT covered (see DESIGN.md, suspected weaknesses).",
    "symbolic execution of _hilbert3d/_get_cpu_list/hilbert_cpu_list and of selective loads on symbolic files; SMT (LIA, LRA)", "DESIGN.md section 5")

for pid in ["C01", "C03", "C04", "C05", "C06", "C07", "C08", "C09", "C10", "C11", "C12", "C13", "C14", "C15", "C16",
            "C17", "C18", "C19", "C20"]:
    NA.setdefault(pid, "check under construction in this round (solver-based harness designed in DESIGN.md section 5, not yet registered)")

if __name__ == "__main__":
    import importlib.util, os, sys
    here = os.path.dirname(os.path.abspath(__file__))
    extra = os.path.join(here, "manifest_entries.py")
    if os.path.exists(extra):
        spec = importlib.util.spec_from_file_location("manifest_entries", extra)
        mod = importlib.util.module_from_spec(spec)
        mod.chk, mod.NA, mod.CHECKS, mod.TRUST = chk, NA, CHECKS, TRUST
        spec.loader.exec_module(mod)
    for pid in CHECKS:
        NA.pop(pid, None)
    man = {
        "version": 1,
        "setup_cmd": "./setup.sh",
        "hooks": {"guard": "HAUGBOEL_OSYRIS_VERIF", "enable": "none needed: all instrumentation is injected from /verif into the module "
                  "namespaces of the imported osyris modules at run time; /repo carries no hook code",
                  "baseline_off_cmd": "cd /repo && /venv/bin/python -m pytest -ra -q -p no:cacheprovider --timeout=900 --continue-on-collection-errors",
                  "source_commits": [], "add_only": True},
        "engines": [{"name": "symx", "path": "/verif/symx", "serves_properties": sorted(CHECKS),
                     "kind_free_text": "symbolic execution of the real osyris Python code on z3-backed proxy objects (SReal/SInt/SymArray), "
                     "DFS path forking by re-execution, SMT obligations per path, replay of models on the un-instrumented code"}],
        "checks": [CHECKS[k] for k in sorted(CHECKS)],
        "not_applicable": [{"property_id": k, "reason": v} for k, v in sorted(NA.items())],
        "notes": "See DESIGN.md. Exit 2 of a check means an engine/harness problem (never reported as pass or as VIOLATION).",
    }
    json.dump(man, open(os.path.join(here, "MANIFEST.json"), "w"), indent=1)
    print("checks:", sorted(CHECKS), "n/a:", sorted(NA))
