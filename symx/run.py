"""python -m symx.run <harness> [--tier quick|thorough] [--replay file] [--only substr] [--jobs n]"""
import os
import sys

ROOT = os.path.dirname(os.path.dirname(os.path.abspath(__file__)))
if ROOT not in sys.path:
    sys.path.insert(0, ROOT)

if __name__ == "__main__":
    from symx import driver
    hname = sys.argv[1]
    from symx import install
    install.fresh_home()
    H = driver.load_harness(hname)
    if hasattr(H, "main"):
        H.main(sys.argv[2:])
    else:
        driver.main(hname, sys.argv[2:])
