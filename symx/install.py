"""Injection of the proxies into the module namespaces of the (already imported) osyris
modules.  No file of /repo is touched; the stubs are listed in the evidence files."""
import os
import sys
import tempfile

_saved = []
STUBS = []


def fresh_home():
    """osyris copies config/defaults.py to ~/.osyris on first import and then prefers the
    copy: give every run a fresh HOME so that the configuration under check is /repo's."""
    if os.environ.get("SYMX_HOME_SET") == "1":
        return os.environ["HOME"]
    d = tempfile.mkdtemp(prefix="symx_home_")
    os.environ["HOME"] = d
    os.environ["SYMX_HOME_SET"] = "1"
    os.environ.setdefault("MPLBACKEND", "Agg")
    os.environ.setdefault("NUMBA_CACHE_DIR", os.path.join(d, "numba"))
    return d


def osyris_modules():
    import osyris  # noqa: F401
    return {n: m for n, m in sys.modules.items()
            if (n == "osyris" or n.startswith("osyris.")) and m is not None}


def mod(name):
    """sys.modules lookup (osyris.plot.map etc. are shadowed by functions of the same name)."""
    import osyris  # noqa: F401
    return sys.modules[name]


def _set(m, name, value):
    had = name in m.__dict__
    _saved.append((m, name, had, m.__dict__.get(name)))
    m.__dict__[name] = value


def install(extra=None, scalars=True):
    """Rebind `np` (and int/float/max/min/round/abs/prange where given) in every osyris
    module.  extra: {module name: {name: value}}"""
    import numpy
    from . import arr, core
    if _saved:
        return
    mods = osyris_modules()
    for n, m in mods.items():
        if m.__dict__.get("np") is numpy:
            _set(m, "np", arr.NP)
        if m.__dict__.get("ma") is numpy.ma:
            _set(m, "ma", arr.MA)
    STUBS.append("np -> symx.arr.NPProxy in every osyris module (array creation returns SymArray)")
    if scalars:
        # not osyris.core.array: it uses `int`/`float` as dtype tags (`result.dtype in (int, float)`)
        for n in ("osyris.core.vector", "osyris.plot.map", "osyris.plot.histogram2d",
                  "osyris.plot.utils", "osyris.io.hilbert", "osyris.io.utils", "osyris.io.amr",
                  "osyris.io.loader", "osyris.io.part"):
            if n in mods:
                m = mods[n]
                _set(m, "int", core.IntLike)
                _set(m, "float", core.FloatLike)
                _set(m, "max", core.sym_max)
                _set(m, "min", core.sym_min)
                _set(m, "round", core.sym_round)
                if n == "osyris.plot.utils":
                    _set(m, "range", core.sym_range)
        STUBS.append("int/float/max/min/round look-alikes (truncating int(), banker's round(), If-merging max/min)")
    for n, d in (extra or {}).items():
        for k, v in d.items():
            _set(mods[n], k, v)
            STUBS.append(f"{n}.{k} -> {getattr(v, '__name__', type(v).__name__)}")


def uninstall():
    while _saved:
        m, name, had, old = _saved.pop()
        if had:
            m.__dict__[name] = old
        else:
            m.__dict__.pop(name, None)
    del STUBS[:]


class uninstrumented:
    """Context manager: temporarily restore the real names (shadow validation / replay)."""

    def __enter__(self):
        self.snap = [(m, n, m.__dict__.get(n, _MISSING)) for (m, n, _, _) in _saved]
        for m, n, had, old in reversed(_saved):
            if had:
                m.__dict__[n] = old
            else:
                m.__dict__.pop(n, None)
        return self

    def __exit__(self, *a):
        for m, n, v in self.snap:
            if v is _MISSING:
                m.__dict__.pop(n, None)
            else:
                m.__dict__[n] = v
        return False


_MISSING = object()
