"""symx.driver -- runs a harness: configurations over a process pool, path exploration,
obligations, shadow validation, replay of counterexamples on the un-instrumented code,
known-findings triage, evidence file, exit code.

Exit codes: 0 all obligations on all explored paths discharged (known findings printed);
1 a replay-confirmed, unlisted counterexample (VIOLATION line); 2 harness/engine problem
(unsupported construct, unknown solver verdict on a main obligation, counterexample that
does not reproduce, vacuity, fewer obligations than the committed floor)."""
import fnmatch
import hashlib
import json
import multiprocessing as mp
import os
import subprocess
import sys
import time
import traceback
from fractions import Fraction

ROOT = os.path.dirname(os.path.dirname(os.path.abspath(__file__)))
EXIT_ENGINE = 2


def _jsonable(x):
    import numpy as np
    if isinstance(x, Fraction):
        return f"{x.numerator}/{x.denominator}" if x.denominator != 1 else int(x)
    if isinstance(x, (np.integer,)):
        return int(x)
    if isinstance(x, (np.floating,)):
        return float(x)
    if isinstance(x, dict):
        return {str(k): _jsonable(v) for k, v in x.items()}
    if isinstance(x, (list, tuple)):
        return [_jsonable(v) for v in x]
    if isinstance(x, (str, int, float, bool)) or x is None:
        return x
    return str(x)


def load_harness(name):
    import importlib
    return importlib.import_module(f"harness.{name}")


# ----------------------------------------------------------------------------- worker


def _init_worker():
    from . import install
    install.fresh_home()


def _source_hash(files):
    h = hashlib.sha256()
    for f in sorted(files):
        p = os.path.join("/repo", f)
        try:
            h.update(open(p, "rb").read())
        except OSError:
            h.update(b"missing:" + f.encode())
    return h.hexdigest()[:16]


def run_config(H, cfg, tier):
    """Explore one configuration symbolically.  Returns a JSON-able summary."""
    import z3
    from . import core, install
    from .mode import Mode
    from .core import explore, model_value

    t0 = time.time()
    core.reset_stats()
    summary = {"cfg": cfg, "paths": 0, "aborted": 0, "obligations": 0, "discharged": 0,
               "unknown": 0, "violations": [], "errors": [], "shadow": 0, "shadow_mismatch": [],
               "samples": [], "exhausted": True, "abort_reasons": {}, "unknown_branches": 0}
    try:
        install.install(extra=getattr(H, "EXTRA_STUBS", lambda: None)() if callable(getattr(H, "EXTRA_STUBS", None)) else None)
        holder = {}

        def fn():
            m = Mode(tol=getattr(H, "TOL", 1e-9))
            holder["m"] = m
            H.body(m, cfg)
            return m

        limits = getattr(H, "LIMITS", {}).get(tier, {})
        res = explore(fn, max_paths=cfg.get("max_paths", limits.get("max_paths", 4000)),
                      budget_s=cfg.get("budget_s", limits.get("budget_s", 600)),
                      forced=cfg.get("_forced"))
        summary["paths"] = res["npaths"]
        summary["aborted"] = res["aborted"]
        summary["abort_reasons"] = res["abort_reasons"]
        summary["exhausted"] = res["exhausted"]
        shadow_every = getattr(H, "SHADOW_EVERY", 8)
        completed = 0
        for p in res["paths"]:
            m = p.out
            summary["unknown_branches"] += p.ctx.unknown_branches
            has_sat = False
            for ob in p.obligations:
                summary["obligations"] += 1
                if ob["status"] == "unsat":
                    summary["discharged"] += 1
                elif ob["status"] == "unknown":
                    summary["unknown"] += 1
                    summary["errors"].append(f"solver unknown on obligation {ob['label']} cfg={cfg}")
                else:
                    has_sat = True
                    mm = m if m is not None else holder.get("m")
                    model = ob.get("model")
                    vals = {}
                    if model is not None and mm is not None:
                        for i, (name, (knd, c)) in enumerate(mm.inputs.items()):
                            try:
                                if model.get_interp(c.decl()) is None:
                                    # unconstrained input (payload): a generic distinct non-zero value makes the replay
                                    # sensitive to misplaced reads, which zeros would hide
                                    vals[name] = (3 + 2 * i) if knd == "int" else _jsonable(Fraction(37 + 61 * i, 100))
                                else:
                                    vals[name] = _jsonable(model_value(model, c))
                            except Exception:
                                vals[name] = 0
                    info = ob.get("info") or {}
                    summary["violations"].append({
                        "key": f"{H.PROP}:{info.get('key', ob['label'])}",
                        "label": ob["label"], "cfg": cfg, "values": vals,
                        "info": _jsonable(info.get("info"))})
            if m is None:
                continue
            completed += 1
            if len(summary["samples"]) < 2:
                try:
                    mdl = p.ctx.get_model()
                    summary["samples"].append({
                        "cfg": cfg, "path_condition_size": len(p.pc),
                        "witness_inputs": {n: _jsonable(model_value(mdl, c))
                                           for n, (_, c) in list(m.inputs.items())[:12]},
                        "obligations": [o["label"] for o in p.obligations[:8]]})
                except core.Abort:
                    pass
            # shadow validation: the model of the path condition through the real code
            if (not has_sat) and getattr(H, "SHADOW", True) and not cfg.get("_noshadow") and (completed - 1) % shadow_every == 0:
                try:
                    mdl = p.ctx.get_model()
                    vals = {n: model_value(mdl, c) for n, (_, c) in m.inputs.items()}
                    cm = Mode(values=vals, tol=getattr(H, "TOL", 1e-9))
                    with install.uninstrumented():
                        H.body(cm, cfg)
                    summary["shadow"] += 1
                    bad = _compare_observed(m, cm, mdl)
                    if cm.failed:
                        bad.append(f"concrete run fails checks {cm.failed[:3]} that the solver discharged")
                    if bad:
                        summary["shadow_mismatch"].append({"cfg": cfg, "detail": bad[:3],
                                                           "values": _jsonable(vals)})
                except core.Abort:
                    pass
                except Exception:
                    summary["shadow_mismatch"].append({"cfg": cfg, "detail": traceback.format_exc()[-600:]})
        summary["completed"] = completed
    except core.Unsupported as e:
        summary["errors"].append(f"unsupported construct: {e} cfg={cfg}\n" + traceback.format_exc()[-800:])
        _fallback_concrete(H, cfg, summary)
    except Exception:
        summary["errors"].append(f"harness error cfg={cfg}\n" + traceback.format_exc()[-1500:])
        _fallback_concrete(H, cfg, summary)
    summary["stats"] = dict(core.STATS)
    summary["wall_s"] = time.time() - t0
    return summary


def _fallback_concrete(H, cfg, summary):
    """The symbolic exploration of this configuration broke down (the code under check did something the proxies cannot
    follow).  The verdict for the configuration stays 'harness error' (exit 2) UNLESS the same body, run concretely on the
    un-instrumented code with generic input values, fails its oracle checks: that is a reproducible violation and is
    reported as one (it is replayed again, like every counterexample, before it is printed)."""
    from .mode import Mode
    from . import core, install
    try:
        cm = Mode(values={}, tol=getattr(H, "TOL", 1e-9), generic=True)
        with install.uninstrumented():
            H.body(cm, cfg)
    except BaseException:
        return
    if cm.failed:
        key = next((k for k in cm.failed if k != "*"), "*")
        summary["violations"].append({"key": f"{H.PROP}:{key}", "label": "concrete fallback run (generic inputs) fails the oracle",
                                      "cfg": cfg, "values": _jsonable(cm.values), "info": _jsonable(getattr(cm, "notes", None))})


def _compare_observed(m, cm, mdl):
    from .core import model_value
    bad = []
    for name, terms in m.observed.items():
        cv = cm.observed.get(name)
        if cv is None or len(cv) != len(terms):
            bad.append(f"{name}: shape differs")
            continue
        for i, (t, c) in enumerate(zip(terms, cv)):
            if t is None or c is None:
                if (t is None) != (c is None):
                    bad.append(f"{name}[{i}]: NaN-ness differs")
                continue
            sv = float(model_value(mdl, t)) if not isinstance(t, (int, float, bool)) else float(t)
            if abs(sv - float(c)) > 1e-6 * max(abs(sv), abs(float(c)), 1e-300):
                bad.append(f"{name}[{i}]: symbolic {sv} vs real code {c}")
    return bad


def _work(args):
    hname, cfg, tier = args
    sys.path.insert(0, ROOT) if ROOT not in sys.path else None
    H = load_harness(hname)
    return run_config(H, cfg, tier)


# ----------------------------------------------------------------------------- replay


def replay_case(H, case):
    """Run the harness body concretely on the un-instrumented osyris."""
    from .mode import Mode
    from . import core
    m = Mode(values=case["values"], tol=getattr(H, "TOL", 1e-9))
    try:
        H.body(m, case["cfg"])
    except core.Abort as e:
        return False, f"aborted: {e}"
    key = case["key"].split(":", 1)[1]
    if key in m.failed:
        return True, f"check '{key}' fails on the real code with these inputs"
    if "*" in m.failed:
        return True, f"end-to-end oracle check fails on the real code with these inputs: {getattr(m, 'notes', '')}"
    return False, f"real code passes '{key}' (failed: {m.failed[:3]})"


def replay_main(hname, path):
    from . import install
    install.fresh_home()
    H = load_harness(hname)
    case = json.load(open(path))
    ok, detail = replay_case(H, case)
    print(("REPRODUCED " if ok else "NOT-REPRODUCED ") + detail)
    return 1 if ok else 0


# ----------------------------------------------------------------------------- main


def load_known():
    p = os.path.join(ROOT, "known_findings.json")
    if not os.path.exists(p):
        return []
    return json.load(open(p)).get("findings", [])


def run_engine(hname, argv=None):
    """Parse arguments, run all configurations.  Returns a dict for finish()."""
    argv = list(sys.argv[1:] if argv is None else argv)
    tier = os.environ.get("VERIF_TIER", "quick")
    if "--tier" in argv:
        tier = argv[argv.index("--tier") + 1]
    seed = int(os.environ.get("VERIF_SEED", "0") or 0)
    jobs = int(os.environ.get("VERIF_JOBS", "16"))
    if "--jobs" in argv:
        jobs = int(argv[argv.index("--jobs") + 1])
    t0 = time.time()
    from . import install
    home = install.fresh_home()
    import osyris  # noqa: F401  -- imported once in the parent: osyris creates $HOME/.osyris on import (racy if 16 workers do it)
    H = load_harness(hname)
    configs = H.configs(tier)
    if "--only" in argv:
        only = argv[argv.index("--only") + 1]
        configs = [c for c in configs if only in json.dumps(c)]
        # a partial run (debugging aid) must not replace the evidence of the registered command
        os.environ.setdefault("VERIF_EVIDENCE_DIR", os.path.join(ROOT, ".scratch", "evidence_partial"))
    results = []
    # a configuration carrying "_split": k is explored by 2^k processes, each forced down one
    # combination of the first k two-sided forks (symx.core.explore(forced=...))
    tasks = []
    for c in configs:
        k = int(c.get("_split", 0))
        if k <= 0:
            tasks.append(c)
        else:
            for bits in range(2 ** k):
                tasks.append(dict(c, _forced=[bool((bits >> i) & 1) for i in range(k)]))
    tasks.sort(key=lambda c: -int(c.get("_split", 0)))
    if jobs <= 1 or len(tasks) <= 1:
        _init_worker()
        for c in tasks:
            results.append(run_config(H, c, tier))
    else:
        ctx = mp.get_context("fork")
        with ctx.Pool(min(jobs, len(tasks)), initializer=_init_worker) as pool:
            for r in pool.imap_unordered(_work, [(hname, c, tier) for c in tasks], chunksize=1):
                results.append(r)
                if os.environ.get("VERIF_PROGRESS"):
                    print(f"PROGRESS {len(results)}/{len(tasks)} {time.time() - t0:.0f}s last={r.get('wall_s', 0):.0f}s paths={r.get('paths')} "
                          f"cfg={json.dumps(r.get('cfg'))[:160]}", file=sys.stderr, flush=True)
    return dict(H=H, hname=hname, tier=tier, seed=seed, configs=configs, results=results, t0=t0, home=home)


def main(hname, argv=None, extra=None):
    argv = list(sys.argv[1:] if argv is None else argv)
    if "--replay" in argv:
        sys.exit(replay_main(hname, argv[argv.index("--replay") + 1]))
    e = run_engine(hname, argv)
    x = extra(e) if extra else {}
    rc = finish(e["H"], hname, e["tier"], e["seed"], e["configs"], e["results"], e["t0"], **x)
    import shutil
    shutil.rmtree(e["home"], ignore_errors=True)
    sys.exit(rc)


def crosshair_extra(path, prop, timeout=120, reach_timeout=40):
    """Run the CrossHair contracts of `path`; returns kwargs for finish()."""
    from . import chrun
    t0 = time.time()
    res = chrun.run_contracts(path, timeout=timeout, reach_timeout=reach_timeout)
    lines, nviol, problem = [], 0, False
    known = [k for k in load_known() if k.get("property") == prop]
    reported = []
    for r in res:
        key = f"{prop}:contract:{r['name']}"
        if r["verdict"] == "counterexample":
            ok, detail = chrun.replay_call(path, r["call"]) if r.get("call") else (False, "no call recovered")
            rdir = os.path.join(ROOT, "replays", prop)
            os.makedirs(rdir, exist_ok=True)
            rp = os.path.join(rdir, f"contract_{r['name']}.json")
            json.dump({"property": prop, "key": key, "contract_file": path, "call": r.get("call"), "detail": r.get("detail")},
                      open(rp, "w"), indent=1)
            if not ok:
                problem = True
                lines.append(f"ENGINE: CrossHair counterexample for {key} does not reproduce: {r.get('detail')} ({detail})")
                continue
            kf = next((k for k in known if fnmatch.fnmatchcase(key, k["key"])), None)
            if kf:
                lines.append(f"KNOWN-FINDING: property={prop} {key} -- {kf.get('what', '')}")
                reported.append({"key": key, "known": True})
            else:
                nviol += 1
                lines.append(f"VIOLATION property={prop} replay={rp}")
                lines.append(f"  {key}: {r.get('detail')}; {detail}")
                reported.append({"key": key, "known": False, "replay": rp})
        elif r["verdict"] != "confirmed":
            problem = True
            lines.append(f"ENGINE: CrossHair contract {r['name']} inconclusive: {r.get('detail', '')[:200]}")
        if not r["reach"]:
            problem = True
            lines.append(f"ENGINE: CrossHair contract {r['name']} is vacuous (reachability twin not violated): {r.get('reach_raw', '')[:200]}")
    cov = {"crosshair_contracts": len(res),
           "crosshair_confirmed_over_all_paths": sum(1 for r in res if r["verdict"] == "confirmed"),
           "crosshair_counterexamples": sum(1 for r in res if r["verdict"] == "counterexample"),
           "crosshair_inconclusive": sum(1 for r in res if r["verdict"] == "inconclusive"),
           "crosshair_reachability_twins_violated": sum(1 for r in res if r["reach"]),
           "crosshair_seconds": {r["name"]: r["seconds"] for r in res},
           "crosshair_file": os.path.relpath(path, ROOT), "crosshair_wall_s": round(time.time() - t0, 1),
           "crosshair_reported": reported}
    return dict(extra_cov=cov, extra_lines=lines, extra_violations=nviol, extra_problem=problem,
                extra_obligations=(len(res), sum(1 for r in res if r["verdict"] == "confirmed")))


def finish(H, hname, tier, seed, configs, results, t0, extra_cov=None, extra_assumptions=None, extra_lines=None,
           extra_violations=0, extra_problem=False, extra_obligations=(0, 0)):
    prop = H.PROP
    agg = {k: sum(r[k] for r in results) for k in
           ("paths", "aborted", "obligations", "discharged", "unknown", "shadow", "unknown_branches")}
    stats = {}
    for r in results:
        for k, v in r.get("stats", {}).items():
            stats[k] = stats.get(k, 0) + v
    errors = [e for r in results for e in r["errors"]]
    mism = [x for r in results for x in r["shadow_mismatch"]]
    not_exhausted = [r["cfg"] for r in results if not r["exhausted"]]
    viol = {}
    for r in results:
        for v in r["violations"]:
            viol.setdefault(v["key"], []).append(v)
    known = [k for k in load_known() if k.get("property") == prop]
    lines = list(extra_lines or [])
    nviol = int(extra_violations)
    engine_problem = bool(extra_problem)
    replays = 0
    agg["obligations"] += extra_obligations[0]
    agg["discharged"] += extra_obligations[1]
    rdir = os.path.join(ROOT, "replays", prop)
    import shutil
    shutil.rmtree(rdir, ignore_errors=True)
    os.makedirs(rdir, exist_ok=True)
    reported = []

    def do_replay(item):
        key, cases = item
        slug = hashlib.sha1(key.encode()).hexdigest()[:10]
        path = os.path.join(rdir, f"{slug}.json")
        detail, n = "", 0
        for cand in cases[:3]:
            json.dump({"property": prop, "harness": hname, **cand}, open(path, "w"), indent=1)
            pr = subprocess.run([sys.executable, "-m", "symx.run", hname, "--replay", path],
                                cwd=ROOT, capture_output=True, text=True, timeout=900)
            n += 1
            detail = (pr.stdout.strip().splitlines() or [pr.stderr.strip()[-300:]])[-1]
            if pr.returncode == 1 and "REPRODUCED" in pr.stdout and "NOT-REPRODUCED" not in pr.stdout:
                return key, cand, path, True, detail, n
        return key, cases[0], path, False, detail, n

    from concurrent.futures import ThreadPoolExecutor
    with ThreadPoolExecutor(max_workers=12) as ex:
        replayed = list(ex.map(do_replay, sorted(viol.items())))
    for key, case, path, reproduced, detail, n in replayed:
        cases = viol[key]
        replays += n
        kf = next((k for k in known if fnmatch.fnmatchcase(key, k["key"])), None)
        if not reproduced:
            engine_problem = True
            lines.append(f"ENGINE: counterexample for {key} does not reproduce on the real code ({detail}); replay={path}")
            continue
        if kf is not None:
            lines.append(f"KNOWN-FINDING: property={prop} {key} -- {kf.get('what', '')}")
            reported.append({"key": key, "known": True, "n_cases": len(cases)})
        else:
            nviol += 1
            lines.append(f"VIOLATION property={prop} replay={path}")
            lines.append(f"  {key}: {detail}; cfg={json.dumps(case['cfg'])} values={json.dumps(case['values'])[:300]}")
            reported.append({"key": key, "known": False, "n_cases": len(cases), "replay": path})
    floor = getattr(H, "FLOOR", {}).get(tier, 1)
    if agg["obligations"] < floor:
        engine_problem = True
        lines.append(f"ENGINE: only {agg['obligations']} obligations checked, committed floor is {floor} (vacuity guard)")
    if errors:
        engine_problem = True
        for e in errors[:5]:
            lines.append("ENGINE: " + e[:1200])
    if mism:
        engine_problem = True
        for x in mism[:5]:
            lines.append(f"ENGINE: shadow validation mismatch: {json.dumps(_jsonable(x))[:600]}")
    if not_exhausted and not getattr(H, "ALLOW_PARTIAL", False):
        engine_problem = True
        lines.append(f"ENGINE: exploration budget hit before all paths were explored for {len(not_exhausted)} configuration(s): {not_exhausted[:2]}")
    wall = time.time() - t0
    samples = [s for r in results for s in r["samples"]][:6]
    cov = {
        "states": max(agg["paths"], 1),
        "transitions": max(int(stats.get("queries", 0)) + int(stats.get("model_hits", 0)), 1),
        "traces_validated_against_impl": agg["shadow"] + replays,
        "samples": _jsonable(samples) or [{"note": "no completed path"}],
        "configurations": len(configs),
        "paths_explored": agg["paths"], "paths_cut": agg["aborted"],
        "obligations": agg["obligations"], "discharged": agg["discharged"],
        "solver_unknown": agg["unknown"], "unknown_branches": agg["unknown_branches"],
        "counterexamples": sum(len(v) for v in viol.values()),
        "distinct_counterexample_keys": len(viol),
        "reported": reported,
        "solver_queries": int(stats.get("queries", 0)), "solver_sat": int(stats.get("sat", 0)),
        "solver_unsat": int(stats.get("unsat", 0)), "solver_seconds": round(stats.get("solver_s", 0.0), 2),
        "branch_decisions_answered_by_cached_model": int(stats.get("model_hits", 0)),
        "shadow_validations": agg["shadow"], "replays": replays,
        "exhaustive": not not_exhausted,
        "functions_encoded": getattr(H, "FUNCTIONS", []),
        "source_hash": _source_hash(getattr(H, "FILES", [])),
        "bounds": getattr(H, "BOUNDS", {}).get(tier, getattr(H, "BOUNDS", {})),
        "stubs": getattr(H, "STUBS", []),
        "engine": "symx: real osyris code executed on z3-backed proxies; every obligation is a z3 validity query under the path condition",
        "solver": "z3 " + _z3_version(),
    }
    cov.update(extra_cov or {})
    ev = {"property_id": prop, "tier": tier, "seed": seed, "level": "model_checking", "coverage": cov,
          "assumptions": list(getattr(H, "ASSUMPTIONS", [])) + list(extra_assumptions or []) + [
              "floats are modelled as reals (no rounding, overflow, NaN/inf of symbolic values)",
              "numpy itself, pint's label parsing and z3 are trusted"],
          "wall_s": round(wall, 2), "violations": nviol}
    # (VERIF_EVIDENCE_DIR: used by the seed / refactoring evaluations, which run against a scratch copy of the repository
    # and must not overwrite the evidence of the runs against /repo)
    evdir = os.environ.get("VERIF_EVIDENCE_DIR") or os.path.join(ROOT, "evidence")
    os.makedirs(evdir, exist_ok=True)
    json.dump(ev, open(os.path.join(evdir, f"{prop}.json"), "w"), indent=1)
    for ln in lines:
        print(ln)
    print(f"[{prop} {tier}] configs={len(configs)} paths={agg['paths']} cut={agg['aborted']} obligations={agg['obligations']} "
          f"discharged={agg['discharged']} unknown={agg['unknown']} counterexample-keys={len(viol)} violations={nviol} "
          f"shadow={agg['shadow']} queries={int(stats.get('queries', 0))} solver_s={stats.get('solver_s', 0):.1f} wall={wall:.1f}s")
    if nviol:
        return 1
    if engine_problem:
        return EXIT_ENGINE
    return 0


def _z3_version():
    try:
        import z3
        return z3.get_version_string()
    except Exception:
        return "?"
