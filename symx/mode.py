"""symx.mode -- one harness body, two executions.

A harness body receives a Mode `m`.  In *symbolic* mode `m.real(name)` is a fresh z3 Real
wrapped in an SReal, the osyris code under check runs on proxies, and `m.check(label, F)`
is discharged by the solver under the path condition.  In *concrete* mode the same body is
run on the un-instrumented osyris with `m.real(name)` = the float the solver's model gave
that symbol and `m.check` evaluates the same formula numerically: this is the replay of a
counterexample (and the shadow validation of the proxies).

Formulas are built with the small algebra below (`m.close`, `m.And`, ...), which yields z3
terms in symbolic mode and Python bools in concrete mode.
"""
from fractions import Fraction

import numpy as np
import z3

from . import core
from .arr import SymArray, raw, sarray, terms_of
from .core import Ctx, SBool, SInt, SReal, is_sym, rterm


class CheckFailed(Exception):
    pass


TOLV = z3.Real("tol!")          # placeholder substituted when an obligation is discharged
ROBUST_TOL = 1e-6               # margin asked of a counterexample before it is replayed


class Mode:
    symbolic = True

    def __init__(self, values=None, tol=1e-9, generic=False):
        self.generic = generic        # concrete mode: inputs without a given value get generic distinct values (recorded in .values)
        self.values = values          # None => symbolic; dict name -> number => concrete
        self.symbolic = values is None
        self.inputs = {}              # name -> ("real"|"int", z3 const)
        self.failed = []              # concrete mode: labels of failed checks
        self.passed = []
        self.observed = {}            # name -> list of terms / floats
        self.tol = tol if self.symbolic else max(tol * 10, 1e-8)
        self.nchecks = 0

    # ---------------------------------------------------------------- inputs
    def real(self, name, lo=None, hi=None, nonzero=False, positive=False):
        if self.symbolic:
            c = z3.Real(name)
            self.inputs[name] = ("real", c)
            x = SReal(c)
            ctx = Ctx.cur
            if lo is not None:
                ctx.add(c >= core.realval(lo))
            if hi is not None:
                ctx.add(c <= core.realval(hi))
            if nonzero:
                ctx.add(c != 0)
            if positive:
                ctx.add(c > 0)
            return x
        if self.generic and name not in self.values:
            i = len(self.values)
            g = Fraction(37 + 61 * i, 100)
            if hi is not None and g > Fraction(hi):
                g = Fraction(hi) - (Fraction(hi) - Fraction(lo if lo is not None else 0)) * Fraction(1 + i % 7, 9)
            if lo is not None and g < Fraction(lo):
                g = Fraction(lo)
            self.values[name] = str(g)
        v = self.values.get(name, 0)
        return float(Fraction(v)) if isinstance(v, str) else float(v)

    def int(self, name, lo=None, hi=None):
        if self.symbolic:
            c = z3.Int(name)
            self.inputs[name] = ("int", c)
            ctx = Ctx.cur
            if lo is not None:
                ctx.add(c >= lo)
            if hi is not None:
                ctx.add(c <= hi)
            return SInt(c)
        if self.generic and name not in self.values:
            i = len(self.values)
            g = 3 + 2 * (i % 50)
            if lo is not None and lo < 0 and i % 2:
                g = -g                                       # signed fields: both signs occur
            if hi is not None and g > hi:
                g = hi - (i % 3) if (lo is None or hi - (i % 3) >= lo) else hi
            if lo is not None and g < lo:
                g = lo + (i % 3) if (hi is None or lo + (i % 3) <= hi) else lo
            self.values[name] = g
        return int(Fraction(self.values.get(name, 0)))

    def number(self, name, dtype, **kw):
        """A scalar of the given numpy dtype kind (int dtypes -> integer-valued)."""
        if np.dtype(dtype).kind in "iu":
            # integer dtypes: machine integers wrap silently in numpy, mathematical integers do not.  The claim is made for
            # integer operands whose sums, products and powers up to the third stay inside the dtype (no wrap-around):
            # |x| <= 1000 for 4-byte and <= 10^6 for 8-byte integers.  Overflow behaviour is numpy's and outside the properties.
            lim = 1000 if np.dtype(dtype).itemsize <= 4 else 10 ** 6
            b = {k: v for k, v in kw.items() if k in ("lo", "hi")}
            b.setdefault("lo", -lim)
            b.setdefault("hi", lim)
            return self.int(name, **b)
        return self.real(name, **kw)

    def array(self, name, shape, dtype="float64", **kw):
        """ndarray (concrete mode) / SymArray (symbolic mode) of fresh inputs name_i."""
        shape = tuple(shape) if not isinstance(shape, int) else (shape,)
        n = int(np.prod(shape)) if shape else 1
        elems = [self.number(f"{name}_{i}", dtype, **kw) for i in range(n)]
        if self.symbolic:
            a = np.empty(n, dtype=object)
            for i, e in enumerate(elems):
                a[i] = e
            return SymArray(a.reshape(shape), dtype)
        return np.array(elems, dtype=dtype).reshape(shape)

    def dtype_tol(self, *dtypes):
        """float32 operands: the floating-point replay computes in single precision (relative rounding 6e-8 per
        operation); its comparisons get a correspondingly wider tolerance.  The symbolic run is over the reals
        and is not affected."""
        if not self.symbolic and any(np.dtype(d) == np.dtype("float32") for d in dtypes if d is not None):
            self.tol = max(self.tol, 2e-5)

    def distinct(self, *arrays):
        """Assume all elements of the given arrays pairwise distinct (provenance labels: the
        values are payload that never influences control flow; distinctness lets the concrete
        replay recognise rows by value as the symbolic run does by symbol)."""
        ts = []
        for a in arrays:
            ts += [t for t in self.vals(a) if t is not None]
        if self.symbolic:
            if len(ts) > 1:
                Ctx.cur.add(z3.Distinct(*ts))
        else:
            if len(set(ts)) != len(ts):
                raise core.Abort("provenance values not distinct in the replay")

    def assume(self, f):
        if self.symbolic:
            Ctx.cur.add(self._fix_tol(self._f(f)) if isinstance(self._f(f), z3.ExprRef) else self._f(f))
        else:
            if not bool(f):
                raise core.Abort("assumption not met by the replay values")

    # ---------------------------------------------------------------- values
    @staticmethod
    def _f(f):
        return f.t if isinstance(f, SBool) else f

    def t(self, x):
        """Normalise a scalar to a z3 Real term (symbolic) or float (concrete)."""
        if self.symbolic:
            if isinstance(x, z3.ExprRef):
                return x
            r = rterm(x)
            if r is None:
                if isinstance(x, (float, np.floating)) and x != x:
                    return None
                raise TypeError(f"no term for {x!r}")
            return r
        if isinstance(x, Fraction):
            return float(x)
        if isinstance(x, np.ndarray):
            return float(x)
        return x if isinstance(x, (bool, np.bool_)) else (float(x) if x is not None else None)

    def vals(self, a):
        """Flat list of terms / floats of an array-like (NaN -> None)."""
        if self.symbolic:
            return terms_of(a)
        arr = np.asarray(a)
        if arr.dtype == object:
            arr = arr.astype(float)
        return [None if (isinstance(v, (float, np.floating)) and v != v) else
                (bool(v) if isinstance(v, (bool, np.bool_)) else float(v)) for v in arr.ravel().tolist()]

    def const(self, x):
        return self.t(x)

    # ---------------------------------------------------------------- formula algebra
    def And(self, *fs):
        fs = [self._f(f) for f in _flat(fs)]
        if self.symbolic:
            return z3.And(*[f if isinstance(f, z3.ExprRef) else z3.BoolVal(bool(f)) for f in fs]) if fs else z3.BoolVal(True)
        return all(bool(f) for f in fs)

    def Or(self, *fs):
        fs = [self._f(f) for f in _flat(fs)]
        if self.symbolic:
            return z3.Or(*[f if isinstance(f, z3.ExprRef) else z3.BoolVal(bool(f)) for f in fs]) if fs else z3.BoolVal(False)
        return any(bool(f) for f in fs)

    def Not(self, f):
        f = self._f(f)
        if self.symbolic:
            return z3.Not(f if isinstance(f, z3.ExprRef) else z3.BoolVal(bool(f)))
        return not bool(f)

    def Implies(self, a, b):
        return self.Or(self.Not(a), b)

    def Iff(self, a, b):
        a, b = self._f(a), self._f(b)
        if self.symbolic:
            a = a if isinstance(a, z3.ExprRef) else z3.BoolVal(bool(a))
            b = b if isinstance(b, z3.ExprRef) else z3.BoolVal(bool(b))
            return a == b
        return bool(a) == bool(b)

    def abs(self, x):
        x = self.t(x)
        if self.symbolic:
            return z3.If(x >= 0, x, -x)
        return abs(x)

    def close(self, a, b, tol=None, scale=None, exact=False):
        """|a-b| <= tol*max(|a|,|b|[,scale]) ; None (NaN) only matches None.
        exact=True: an algebraic identity -- proved as a == b over the reals, compared with the
        tolerance only in the floating-point replay."""
        if a is None or b is None:
            return (a is None and b is None) if not self.symbolic else z3.BoolVal(a is None and b is None)
        a, b = self.t(a), self.t(b)
        if exact and self.symbolic:
            return a == b
        tol = self.tol if tol is None else tol
        if self.symbolic:
            d = a - b
            ab = z3.If(b >= 0, b, -b)
            tl = TOLV if tol == self.tol else core.realval(tol)
            bound = tl * ab
            if scale is not None:
                bound = bound + tl * self.t(scale)
            return z3.And(d <= bound, -d <= bound)
        s = max(abs(a), abs(b), abs(scale) if scale is not None else 0.0)
        return abs(a - b) <= tol * s + 1e-300

    def tol_term(self):
        return TOLV if self.symbolic else self.tol

    def eq(self, a, b):
        a, b = self.t(a), self.t(b)
        return (a == b)

    def lt(self, a, b): return self.t(a) < self.t(b)
    def le(self, a, b): return self.t(a) <= self.t(b)
    def gt(self, a, b): return self.t(a) > self.t(b)
    def ge(self, a, b): return self.t(a) >= self.t(b)

    # comparisons against computed boundaries: exact over the reals; in the floating-point replay a
    # closed comparison gets a slack and a strict one a margin (so that boundary rounding can neither
    # fake nor hide a violation)
    def ge_b(self, a, b, scale=1.0):
        if self.symbolic:
            return self.t(a) >= self.t(b)
        return a >= b - 1e-9 * (abs(a) + abs(b) + abs(scale))

    def le_b(self, a, b, scale=1.0):
        if self.symbolic:
            return self.t(a) <= self.t(b)
        return a <= b + 1e-9 * (abs(a) + abs(b) + abs(scale))

    def gt_b(self, a, b, scale=1.0):
        if self.symbolic:
            return self.t(a) > self.t(b)
        return a > b + 1e-9 * (abs(a) + abs(b) + abs(scale))

    def lt_b(self, a, b, scale=1.0):
        if self.symbolic:
            return self.t(a) < self.t(b)
        return a < b - 1e-9 * (abs(a) + abs(b) + abs(scale))

    def all_close(self, xs, ys, tol=None, scale=None):
        xs, ys = list(xs), list(ys)
        if len(xs) != len(ys):
            return self.And(False)
        return self.And([self.close(x, y, tol, scale) for x, y in zip(xs, ys)])

    # ---------------------------------------------------------------- obligations
    def check(self, label, formula, key=None, info=None, timeout_ms=None, drop=None, prefer=None):
        """Obligation: the formula holds on this path for all inputs.  `prefer`: extra constraints tried when a
        counterexample model is chosen (they select, among the violating inputs, ones whose effect is visible
        end to end); they never influence the verdict."""
        self.nchecks += 1
        key = key or label
        if self.symbolic:
            f = self._f(formula)
            if isinstance(f, z3.ExprRef):
                f1 = core.subst_const(f, TOLV, core.realval(self.tol))
            else:
                f1 = f
            c = Ctx.cur
            r = c.prove(f1, label, timeout_ms=timeout_ms, info={"key": key, "info": info}, drop=drop)
            if r == "sat" and isinstance(f, z3.ExprRef):
                # prefer a counterexample that violates the property by a clear margin
                f2 = core.subst_const(f, TOLV, core.realval(ROBUST_TOL))
                r2, m2 = core.solve(c.pc + [z3.Not(f2)], timeout_ms)
                if r2 == "sat":
                    c.obligations[-1]["model"] = m2
                if prefer:
                    pf = [self._fix_tol(self._f(x)) for x in prefer]
                    for neg in (z3.Not(f2), z3.Not(f1)):
                        r3, m3 = core.solve(c.pc + [neg] + pf, timeout_ms)
                        if r3 == "sat":
                            c.obligations[-1]["model"] = m3
                            break
            return r == "unsat"
        ok = bool(formula)
        (self.passed if ok else self.failed).append(key)
        return ok

    def fail(self, label, key=None, info=None):
        self.nchecks += 1
        key = key or label
        if self.symbolic:
            Ctx.cur.fail(label, info={"key": key, "info": info})
        else:
            self.failed.append(key)
        return False

    def ok(self, label):
        self.nchecks += 1
        if self.symbolic:
            Ctx.cur.ok(label)
        else:
            self.passed.append(label)
        return True

    def require(self, cond, label, key=None, info=None):
        """Structural obligation decided concretely on this path (shape, type, identity...)."""
        return self.ok(label) if cond else self.fail(label, key, info)

    def observe(self, name, a):
        self.observed[name] = self.vals(a)

    def _fix_tol(self, f):
        return core.subst_const(f, TOLV, core.realval(self.tol)) if isinstance(f, z3.ExprRef) else f

    def decide(self, f):
        """Truth of a formula on this path (forks in symbolic mode)."""
        f = self._f(f)
        if self.symbolic:
            return Ctx.cur.branch(self._fix_tol(f)) if isinstance(f, z3.ExprRef) else bool(f)
        return bool(f)

    def entailed(self, f):
        f = self._f(f)
        if self.symbolic:
            return Ctx.cur.entails(self._fix_tol(f))
        return bool(f)


def _flat(fs):
    out = []
    for f in fs:
        if isinstance(f, (list, tuple)):
            out.extend(_flat(f))
        else:
            out.append(f)
    return out
