"""symx.chrun -- runs CrossHair (z3-backed symbolic execution of Python) on contract
functions that call the real osyris code.

A contract is a module-level function `name(args...) -> bool` with a PEP-316 docstring
(`pre:` lines, `post: _`).  For every contract a *reachability twin* (`post: not _`) is
generated: CrossHair must find an input for which the body runs to completion and returns
True, otherwise the contract is vacuous.  Verdicts:
  "Confirmed over all paths"            -> discharged
  counterexample                         -> replayed by calling the function concretely on the
                                            un-instrumented code; reported only if it returns
                                            False again
  "Not confirmed" / "Unable to meet precondition" / timeout -> inconclusive (exit 2)
"""
import ast
import os
import re
import subprocess
import sys
import tempfile
import time
from concurrent.futures import ThreadPoolExecutor

ROOT = os.path.dirname(os.path.dirname(os.path.abspath(__file__)))


def contracts_in(path):
    src = open(path).read()
    tree = ast.parse(src)
    out = []
    for node in tree.body:
        if isinstance(node, ast.FunctionDef) and not node.name.startswith("_"):
            doc = ast.get_docstring(node) or ""
            if "post:" in doc:
                out.append((node.name, node.lineno, node.end_lineno))
    return src, out


def _make_twin_module(path, tmpdir):
    """Copy of the contract module with, for each contract f, a twin f__reach whose
    postcondition `not _` must be violated."""
    src, cons = contracts_in(path)
    lines = src.splitlines()
    twins = []
    for name, lo, hi in cons:
        body = "\n".join(lines[lo - 1:hi])
        body = re.sub(rf"def {name}\(", f"def {name}__reach(", body, count=1)
        body = re.sub(r"post:\s*_\s*$", "post: not _", body, flags=re.M)
        twins.append(body)
    mod = os.path.join(tmpdir, "twin_" + os.path.basename(path))
    open(mod, "w").write(src + "\n\n\n" + "\n\n\n".join(twins) + "\n")
    return mod, cons


def _run_crosshair(target, timeout):
    env = dict(os.environ)
    env["PYTHONPATH"] = ROOT + os.pathsep + env.get("PYTHONPATH", "")
    t0 = time.time()
    try:
        pr = subprocess.run([sys.executable, "-m", "crosshair", "check", "--report_all",
                             "--per_condition_timeout", str(timeout), target],
                            capture_output=True, text=True, timeout=timeout * 4 + 120, env=env, cwd=ROOT)
        out = pr.stdout + pr.stderr
        rc = pr.returncode
    except subprocess.TimeoutExpired as e:
        out, rc = (e.stdout or "") + "\nTIMEOUT", 2
    return out, rc, time.time() - t0


def run_contracts(path, timeout=90, reach_timeout=30, jobs=16):
    """Returns list of dicts per contract: name, verdict in {confirmed, counterexample,
    inconclusive}, detail, reach (bool), seconds."""
    tmpdir = tempfile.mkdtemp(prefix="symx_ch_")
    mod, cons = _make_twin_module(path, tmpdir)
    src = open(mod).read().splitlines()

    def line_of(fname):
        for i, ln in enumerate(src):
            if ln.startswith(f"def {fname}("):
                return i + 2
        raise KeyError(fname)

    def one(name):
        out, rc, secs = _run_crosshair(f"{mod}:{line_of(name)}", timeout)
        res = {"name": name, "seconds": round(secs, 1), "raw": out.strip()[-600:]}
        if "error:" in out and ("false when calling" in out or "when calling" in out):
            mm = re.search(r"error: (.*when calling (.*?))(?: \(which returns|$)", out, flags=re.M)
            res["verdict"] = "counterexample"
            res["detail"] = mm.group(1) if mm else out.strip()[-300:]
            res["call"] = mm.group(2).strip() if mm else None
        elif "Confirmed over all paths" in out:
            res["verdict"] = "confirmed"
        else:
            res["verdict"] = "inconclusive"
            res["detail"] = out.strip()[-300:]
        # reachability twin
        out2, rc2, secs2 = _run_crosshair(f"{mod}:{line_of(name + '__reach')}", reach_timeout)
        res["reach"] = "error:" in out2
        res["reach_seconds"] = round(secs2, 1)
        if not res["reach"]:
            res["reach_raw"] = out2.strip()[-300:]
        return res

    with ThreadPoolExecutor(max_workers=jobs) as ex:
        results = list(ex.map(one, [c[0] for c in cons]))
    import shutil
    shutil.rmtree(tmpdir, ignore_errors=True)
    return results


def replay_call(path, call):
    """Evaluate `f(args)` concretely in a fresh interpreter; True if it returns False / raises
    (= the counterexample reproduces)."""
    code = (f"import sys; sys.path.insert(0, {ROOT!r})\n"
            f"import importlib.util\n"
            f"spec = importlib.util.spec_from_file_location('chmod', {path!r}); mod = importlib.util.module_from_spec(spec)\n"
            f"spec.loader.exec_module(mod)\n"
            f"r = eval({call!r}, vars(mod))\n"
            f"print('RESULT', r)\n")
    pr = subprocess.run([sys.executable, "-c", code], capture_output=True, text=True, timeout=300, cwd=ROOT)
    if "RESULT False" in pr.stdout:
        return True, "contract function returns False on the real code"
    if pr.returncode != 0:
        return True, "contract function raises: " + pr.stderr.strip().splitlines()[-1][:200]
    return False, pr.stdout.strip()[-200:]
