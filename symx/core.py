"""symx.core -- symbolic scalars, path exploration by re-execution, solver obligations.

The real osyris code is executed in CPython on these proxy objects.  A branch on a
symbolic fact (``bool(SBool)``) asks z3 which sides are feasible under the current path
condition and forks; paths are enumerated depth-first by re-running the harness with a
recorded decision prefix (the same scheme CrossHair uses).

floats are modelled as reals (z3 Real), Python ints as z3 Int.
"""
import time
from fractions import Fraction

import numpy as np
import z3


class Abort(BaseException):
    """The current path is cut (infeasible, or outside the stated claim)."""


class Unsupported(BaseException):
    """A construct the engine does not model was reached: the run is inconclusive."""


STATS = {"queries": 0, "sat": 0, "unsat": 0, "unknown": 0, "solver_s": 0.0,
         "model_hits": 0, "forks": 0}

DEFAULT_TIMEOUT_MS = 20000


def reset_stats():
    for k in STATS:
        STATS[k] = 0.0 if k == "solver_s" else 0


def solve(constraints, timeout_ms=None):
    """Fresh solver per query (the incremental core answers `unknown` on NRA that a
    fresh solver closes immediately)."""
    s = z3.Solver()
    s.set("timeout", int(timeout_ms or DEFAULT_TIMEOUT_MS))
    s.add(*constraints)
    t = time.time()
    r = s.check()
    STATS["solver_s"] += time.time() - t
    STATS["queries"] += 1
    STATS[str(r)] += 1
    return str(r), (s.model() if r == z3.sat else None)


# ----------------------------------------------------------------------------- monomial abstraction
# A polynomial obligation (cross products, norms, unit factors ...) is first tried in linear
# arithmetic with every non-linear monomial replaced by a fresh variable.  This is a sound
# abstraction for validity (unsat of the abstraction => unsat of the original); a `sat`
# answer of the abstraction proves nothing and the original NRA query is run.


def _is_num(e):
    return z3.is_rational_value(e) or z3.is_int_value(e) or z3.is_algebraic_value(e)


_MONO = {}      # mono variable name -> list of its atomic factors (z3 terms)


def _mono_abstract(e, cache, found):
    """Bottom-up: replace every non-linear product by a variable named after its (sorted)
    atomic factors.  Children are abstracted first, so that when a product node is
    normalised into a sum of monomials (z3 simplify, som) no raw product is left inside
    an `If` condition (z3's rewriter would turn `x*y >= 0` into a sign analysis and lose
    the link to the monomial)."""
    if not z3.is_app(e) or e.num_args() == 0:
        return e
    key = e.get_id()
    if key in cache:
        return cache[key]
    k = e.decl().kind()
    args = [_mono_abstract(c, cache, found) for c in e.children()]
    try:
        r = e.decl()(*args)
    except z3.Z3Exception:
        r = e
    if k in (z3.Z3_OP_MUL, z3.Z3_OP_POWER):
        nonnum = [a for a in args if not _is_num(a)]
        if k == z3.Z3_OP_POWER or len(nonnum) >= 2:
            r = _poly(z3.simplify(r, som=True), found)
    cache[key] = r
    return r


def _factors(a):
    """Atomic factors of an (already abstracted) multiplicand."""
    if z3.is_const(a) and a.decl().name() in _MONO:
        return list(_MONO[a.decl().name()])
    return [a]


def _mk_mono(atoms, found):
    atoms = sorted(atoms, key=str)
    name = "mono!" + "*".join(str(a) for a in atoms)
    _MONO[name] = atoms
    found.append(name)
    return z3.Real(name) if atoms[0].sort() == z3.RealSort() else z3.Int(name)


def _poly(t, found):
    if not z3.is_app(t) or t.num_args() == 0:
        return t
    k = t.decl().kind()
    if k == z3.Z3_OP_ADD:
        parts = [_poly(c, found) for c in t.children()]
        r = parts[0]
        for p in parts[1:]:
            r = r + p
        return r
    if k == z3.Z3_OP_UMINUS:
        return -_poly(t.arg(0), found)
    if k == z3.Z3_OP_MUL:
        kids = []

        def flat(x):
            if z3.is_app(x) and x.decl().kind() == z3.Z3_OP_MUL:
                for c in x.children():
                    flat(c)
            else:
                kids.append(x)
        flat(t)
        nums = [a for a in kids if _is_num(a)]
        atoms = []
        for a in kids:
            if _is_num(a):
                continue
            n = _int_power(a)
            if n is not None:
                atoms += _factors(a.arg(0)) * n
            else:
                atoms += _factors(a)
        if len(atoms) >= 2:
            r = _mk_mono(atoms, found)
        elif atoms:
            r = atoms[0]
        else:
            r = z3.RealVal(1)
        for n in nums:
            r = n * r
        return r
    if k == z3.Z3_OP_POWER:
        n = _int_power(t)
        if n is not None:
            return _mk_mono(_factors(t.arg(0)) * n, found)
        return _mk_mono([t, z3.RealVal(1)], found) if False else t
    return t


def _int_power(a):
    if not (z3.is_app(a) and a.decl().kind() == z3.Z3_OP_POWER):
        return None
    ex = a.arg(1)
    n = None
    if z3.is_int_value(ex):
        n = ex.as_long()
    elif z3.is_rational_value(ex) and ex.denominator_as_long() == 1:
        n = ex.numerator_as_long()
    return n if n is not None and 2 <= n <= 8 else None


def subst_const(e, var, val, cache=None):
    """e[var := val] by plain reconstruction (z3.substitute runs the rewriter, which turns
    `x*y >= 0` into a sign analysis and defeats the monomial abstraction)."""
    cache = {} if cache is None else cache
    if not z3.is_app(e):
        return e
    if e.num_args() == 0:
        return val if e.eq(var) else e
    k = e.get_id()
    if k in cache:
        return cache[k]
    args = [subst_const(c, var, val, cache) for c in e.children()]
    try:
        r = e.decl()(*args)
    except z3.Z3Exception:
        r = z3.substitute(e, (var, val))
    cache[k] = r
    return r


def abstract_monomials(constraints):
    found = []
    cache = {}
    return [_mono_abstract(c, cache, found) for c in constraints], found


# ----------------------------------------------------------------------------- context


def solve_validity(pc, formula, timeout_ms=None):
    """pc ==> formula ?  ('unsat' = valid).  Polynomial obligations are first tried under the
    monomial abstraction (LRA); only if that is not conclusive the NRA query is run."""
    q = list(pc) + [z3.Not(formula)]
    try:
        qa, found = abstract_monomials(q)
    except z3.Z3Exception:
        found = []
    if found:
        STATS["abstracted"] = STATS.get("abstracted", 0) + 1
        r, _ = solve(qa, timeout_ms)
        if r == "unsat":
            return r, None
    return solve(q, timeout_ms)


class Ctx:
    cur = None

    def __init__(self, decisions=None):
        self.decisions = decisions or []   # list of [taken, other_side_pending]
        self.pos = 0
        self.pc = []
        self.model = None
        self.unknown_branches = 0
        self.obligations = []              # (label, status, info)
        self.cuts = []                     # reasons of assumed-away sub-paths
        self.notes = {}
        self.forced = []

    # -- path condition ------------------------------------------------------
    def add(self, *cs):
        for c in cs:
            if isinstance(c, SBool):
                c = c.t
            if isinstance(c, bool):
                if not c:
                    raise Abort("assumption is False")
                continue
            self.pc.append(c)
            if self.model is not None and not z3.is_true(
                    self.model.eval(c, model_completion=True)):
                self.model = None

    assume = add

    def get_model(self):
        if self.model is None:
            r, m = solve(self.pc)
            if r != "sat":
                raise Abort(f"no model for path condition ({r})")
            self.model = m
        return self.model

    def _side(self, cond):
        if self.model is not None:
            v = self.model.eval(cond, model_completion=True)
            if z3.is_true(v):
                STATS["model_hits"] += 1
                return "sat", self.model
        return solve(self.pc + [cond])

    def branch(self, cond):
        """Decide a symbolic condition: fork if both sides are feasible."""
        if isinstance(cond, bool):
            return cond
        cond = z3.simplify(cond)
        if z3.is_true(cond):
            return True
        if z3.is_false(cond):
            return False
        if self.pos < len(self.decisions):
            d = self.decisions[self.pos][0]
            self.pos += 1
            self.add(cond if d else z3.Not(cond))
            return d
        rt, mt = self._side(cond)
        rf, mf = self._side(z3.Not(cond))
        if rt == "unknown" or rf == "unknown":
            self.unknown_branches += 1
        t_ok, f_ok = rt != "unsat", rf != "unsat"
        if t_ok and f_ok:
            if self.forced:
                d = bool(self.forced.pop(0))
                self.decisions.append([d, False, True])
            else:
                d = True
                self.decisions.append([True, True, False])
            STATS["forks"] += 1
        elif t_ok:
            d = True
            self.decisions.append([True, False, False])
        elif f_ok:
            d = False
            self.decisions.append([False, False, False])
        else:
            raise Abort("infeasible path")
        self.pos += 1
        self.pc.append(cond if d else z3.Not(cond))
        self.model = mt if d else mf
        return d

    # -- obligations ---------------------------------------------------------
    def prove(self, formula, label, timeout_ms=None, info=None, drop=None):
        """pc ==> formula ?  Records and returns 'unsat' (discharged), 'sat', 'unknown'.
        drop: predicate on path-condition conjuncts; the obligation is first tried under the
        WEAKER path condition without them (sound: fewer assumptions), e.g. to keep integer
        rounding constraints out of a non-linear real query."""
        if isinstance(formula, SBool):
            formula = formula.t
        if drop is not None and not isinstance(formula, (bool, np.bool_)):
            weak = [c for c in self.pc if not drop(c)]
            if len(weak) < len(self.pc):
                r0, _ = solve_validity(weak, formula, timeout_ms)
                if r0 == "unsat":
                    self.obligations.append({"label": label, "status": "unsat", "info": info})
                    return "unsat"
        if isinstance(formula, (bool, np.bool_)):
            r, m = ("unsat", None) if formula else ("sat", self.get_model())
        else:
            f = z3.simplify(formula)
            if z3.is_true(f):
                r, m = "unsat", None
            else:
                r, m = solve_validity(self.pc, formula, timeout_ms)
        rec = {"label": label, "status": r, "info": info}
        if m is not None:
            rec["model"] = m
        self.obligations.append(rec)
        return r

    def fail(self, label, info=None):
        """A structural (non-formula) obligation failed on this path."""
        rec = {"label": label, "status": "sat", "info": info, "model": self.get_model()}
        self.obligations.append(rec)

    def ok(self, label, info=None):
        self.obligations.append({"label": label, "status": "unsat", "info": info})

    def entails(self, formula, timeout_ms=None):
        if isinstance(formula, SBool):
            formula = formula.t
        if isinstance(formula, (bool, np.bool_)):
            return bool(formula)
        r, _ = solve(self.pc + [z3.Not(formula)], timeout_ms)
        return r == "unsat"


def mentions_to_int(e, _cache=None):
    """Does the term contain ToInt / integer arithmetic (mixed int-real)?"""
    seen = set()
    stack = [e]
    while stack:
        t = stack.pop()
        if t.get_id() in seen:
            continue
        seen.add(t.get_id())
        if z3.is_app(t):
            if t.decl().kind() in (z3.Z3_OP_TO_INT, z3.Z3_OP_IS_INT) or (t.num_args() == 0 and z3.is_int(t) and not z3.is_int_value(t)):
                return True
            stack.extend(t.children())
    return False


def cur():
    return Ctx.cur


class Path:
    """What one explored path produced."""

    def __init__(self, ctx, out, error=None):
        self.pc = list(ctx.pc)
        self.out = out
        self.ctx = ctx
        self.obligations = ctx.obligations
        self.error = error


def explore(fn, max_paths=100000, budget_s=1e9, forced=None):
    """Run fn() once per feasible path.  Returns dict with paths / counts.

    forced: list of bools -- the first len(forced) two-sided forks are forced to these
    sides (used to split one exploration over several processes)."""
    decisions = []
    paths = []
    npaths = aborted = 0
    abort_reasons = {}
    t0 = time.time()
    exhausted = True
    forced = list(forced or [])
    while True:
        ctx = Ctx([list(d) for d in decisions])
        nused = sum(1 for d in decisions if d[2])
        ctx.forced = forced[nused:]
        Ctx.cur = ctx
        try:
            out = fn()
            if ctx.forced and not all(ctx.forced):
                pass   # duplicate of the path explored by the all-True sibling split
            else:
                paths.append(Path(ctx, out))
        except Abort as e:
            aborted += 1
            k = str(e)[:80]
            abort_reasons[k] = abort_reasons.get(k, 0) + 1
            if ctx.obligations:
                paths.append(Path(ctx, None, error="abort:" + k))
        finally:
            Ctx.cur = None
        npaths += 1
        decisions = ctx.decisions
        while decisions and not (decisions[-1][0] is True and decisions[-1][1]):
            decisions.pop()
        if not decisions:
            break
        if npaths >= max_paths or time.time() - t0 > budget_s:
            exhausted = False
            break
        decisions[-1] = [False, False, False]
    return {"paths": paths, "npaths": npaths, "aborted": aborted,
            "abort_reasons": abort_reasons, "exhausted": exhausted,
            "wall_s": time.time() - t0}


# ----------------------------------------------------------------------------- scalars


def _is_nan(o):
    return isinstance(o, (float, np.floating)) and o != o


def frac_of(x):
    """Exact rational of a concrete number, floats at their shortest round-trip decimal."""
    if isinstance(x, (bool, np.bool_)):
        return Fraction(int(x))
    if isinstance(x, (int, np.integer)):
        return Fraction(int(x))
    if isinstance(x, (float, np.floating)):
        return Fraction(repr(float(x)))
    if isinstance(x, Fraction):
        return x
    raise TypeError(x)


def realval(x):
    f = frac_of(x)
    return z3.RealVal(f"{f.numerator}/{f.denominator}") if f.denominator != 1 else z3.RealVal(f.numerator)


def rterm(o):
    """z3 Real term for a scalar operand, or None."""
    if isinstance(o, SReal):
        return o.t
    if isinstance(o, SInt):
        return z3.ToReal(o.t)
    if isinstance(o, SBool):
        return z3.If(o.t, z3.RealVal(1), z3.RealVal(0))
    if isinstance(o, (bool, np.bool_, int, np.integer)):
        return z3.RealVal(int(o))
    if isinstance(o, (float, np.floating)):
        if o != o or o in (float("inf"), float("-inf")):
            return None
        return realval(o)
    if isinstance(o, Fraction):
        return realval(o)
    if isinstance(o, np.ndarray) and o.ndim == 0 and not isinstance(o.item(), np.ndarray):
        return rterm(o.item())
    return None


def iterm(o):
    if isinstance(o, SInt):
        return o.t
    if isinstance(o, SBool):
        return z3.If(o.t, z3.IntVal(1), z3.IntVal(0))
    if isinstance(o, (bool, np.bool_, int, np.integer)):
        return z3.IntVal(int(o))
    return None


class SBool:
    def __init__(self, t):
        self.t = t

    def __bool__(self):
        return Ctx.cur.branch(self.t)

    @staticmethod
    def _t(o):
        if isinstance(o, SBool):
            return o.t
        if isinstance(o, (bool, np.bool_)):
            return z3.BoolVal(bool(o))
        return None

    def __and__(self, o):
        t = self._t(o)
        return NotImplemented if t is None else SBool(z3.And(self.t, t))

    __rand__ = __and__

    def __or__(self, o):
        t = self._t(o)
        return NotImplemented if t is None else SBool(z3.Or(self.t, t))

    __ror__ = __or__

    def __xor__(self, o):
        t = self._t(o)
        return NotImplemented if t is None else SBool(z3.Xor(self.t, t))

    __rxor__ = __xor__

    def __invert__(self):
        return SBool(z3.Not(self.t))

    def __repr__(self):
        return f"SBool({z3.simplify(self.t)})"

    __hash__ = None


def _pow_int(t, k):
    r = None
    for _ in range(k):
        r = t if r is None else r * t
    return r


class SReal:
    """A symbolic float (modelled as a real)."""
    shape = ()
    ndim = 0
    size = 1
    dtype = np.dtype("float64")
    __array_priority__ = 0

    def __init__(self, t):
        self.t = t

    # numpy's object loops and Array code look for these
    def _b(self, o, f):
        if _is_nan(o):
            return float("nan")
        t = rterm(o)
        if t is None:
            return NotImplemented
        return SReal(f(self.t, t))

    def __add__(self, o): return self._b(o, lambda a, b: a + b)
    def __radd__(self, o): return self._b(o, lambda a, b: b + a)
    def __sub__(self, o): return self._b(o, lambda a, b: a - b)
    def __rsub__(self, o): return self._b(o, lambda a, b: b - a)
    def __mul__(self, o): return self._b(o, lambda a, b: a * b)
    def __rmul__(self, o): return self._b(o, lambda a, b: b * a)

    @staticmethod
    def _div(a, b):
        if z3.is_rational_value(b) or z3.is_int_value(b):
            if z3.simplify(b == 0).eq(z3.BoolVal(True)):
                raise Abort("cut: division by concrete zero")
            return a / b
        if not Ctx.cur.branch(b != 0):
            raise Abort("cut: division by zero")
        return a / b

    def __truediv__(self, o): return self._b(o, lambda a, b: SReal._div(a, b))
    def __rtruediv__(self, o): return self._b(o, lambda a, b: SReal._div(b, a))

    def __floordiv__(self, o):
        q = self.__truediv__(o)
        if q is NotImplemented:
            return q
        return SReal(z3.ToReal(z3.ToInt(q.t)))

    def __neg__(self): return SReal(-self.t)
    def __pos__(self): return self
    def __abs__(self): return SReal(z3.If(self.t >= 0, self.t, -self.t))
    def conjugate(self): return self

    def __pow__(self, k):
        if isinstance(k, (SReal, SInt)):
            raise Unsupported("symbolic exponent")
        if isinstance(k, np.ndarray) and k.ndim == 0:
            k = k.item()
        if not isinstance(k, (int, float, np.integer, np.floating)):
            return NotImplemented
        kf = Fraction(repr(float(k))) if not isinstance(k, (int, np.integer)) else Fraction(int(k))
        if kf.denominator == 1:
            n = int(kf)
            if n == 0:
                return SReal(z3.RealVal(1))
            if n > 0:
                return SReal(_pow_int(self.t, n))
            return SReal(SReal._div(z3.RealVal(1), _pow_int(self.t, -n)))
        if kf == Fraction(1, 2):
            return self.sqrt()
        if kf == Fraction(-1, 2):
            return 1.0 / self.sqrt()
        if kf == Fraction(1, 3):
            return self.cbrt()
        if kf == Fraction(3, 2):
            return self.sqrt() * self
        raise Unsupported(f"power {k}")

    def __rpow__(self, b):
        raise Unsupported("symbolic exponent")

    def _c(self, o, f):
        if _is_nan(o):
            return False
        t = rterm(o)
        if t is None:
            return NotImplemented
        return SBool(f(self.t, t))

    def __lt__(self, o): return self._c(o, lambda a, b: a < b)
    def __le__(self, o): return self._c(o, lambda a, b: a <= b)
    def __gt__(self, o): return self._c(o, lambda a, b: a > b)
    def __ge__(self, o): return self._c(o, lambda a, b: a >= b)
    def __eq__(self, o): return self._c(o, lambda a, b: a == b)
    def __ne__(self, o):
        if _is_nan(o):
            return True
        return self._c(o, lambda a, b: a != b)
    __hash__ = None

    def __bool__(self):
        return Ctx.cur.branch(self.t != 0)

    def sqrt(self):
        if not Ctx.cur.branch(self.t >= 0):
            raise Abort("cut: sqrt of a negative number (NaN)")
        r = z3.FreshReal("sqrt")
        Ctx.cur.add(r >= 0, r * r == self.t)
        return SReal(r)

    def cbrt(self):
        r = z3.FreshReal("cbrt")
        Ctx.cur.add(r * r * r == self.t)
        return SReal(r)

    def log10(self):
        return SReal(LOG10(self.t))

    def __float__(self):
        raise Unsupported("float() of a symbolic real (silent concretisation)")

    def __int__(self):
        raise Unsupported("int() of a symbolic real outside a shimmed module")

    def __round__(self, nd=None):
        if nd is not None:
            raise Unsupported("round(x, nd)")
        y = z3.ToInt(self.t + z3.RealVal("1/2"))
        tie = z3.And(z3.ToReal(y) == self.t + z3.RealVal("1/2"), y % 2 != 0)
        return SInt(z3.If(tie, y - 1, y)).__index__()

    def trunc(self):
        return SInt(z3.If(self.t >= 0, z3.ToInt(self.t), -z3.ToInt(-self.t)))

    def item(self):
        return self

    def __repr__(self):
        return f"SReal({z3.simplify(self.t)})"

    def __format__(self, spec):
        return repr(self)


LOG10 = z3.Function("log10", z3.RealSort(), z3.RealSort())
POW10 = z3.Function("pow10", z3.RealSort(), z3.RealSort())


class SInt:
    """A symbolic Python int."""
    shape = ()
    ndim = 0
    size = 1
    dtype = np.dtype("int64")

    def __init__(self, t):
        self.t = t

    def _b(self, o, f, rf=None):
        if isinstance(o, (float, np.floating, SReal, Fraction)):
            if rf is None:
                return NotImplemented
            return rf(SReal(z3.ToReal(self.t)), o)
        t = iterm(o)
        if t is None:
            return NotImplemented
        return SInt(z3.simplify(f(self.t, t)))

    def __add__(self, o): return self._b(o, lambda a, b: a + b, lambda a, b: a + b)
    def __radd__(self, o): return self._b(o, lambda a, b: b + a, lambda a, b: b + a)
    def __sub__(self, o): return self._b(o, lambda a, b: a - b, lambda a, b: a - b)
    def __rsub__(self, o): return self._b(o, lambda a, b: b - a, lambda a, b: b - a)
    def __mul__(self, o): return self._b(o, lambda a, b: a * b, lambda a, b: a * b)
    def __rmul__(self, o): return self._b(o, lambda a, b: b * a, lambda a, b: b * a)

    def __floordiv__(self, o):
        return self._b(o, lambda a, b: a / b)   # z3 Int '/' is floor division for b>0

    def __rfloordiv__(self, o):
        return self._b(o, lambda a, b: b / a)

    def __mod__(self, o):
        return self._b(o, lambda a, b: a % b)

    def __truediv__(self, o):
        return SReal(z3.ToReal(self.t)) / o

    def __rtruediv__(self, o):
        return o / SReal(z3.ToReal(self.t))

    def __pow__(self, k):
        if isinstance(k, (int, np.integer)) and k >= 0:
            return SInt(_pow_int(self.t, int(k))) if k else SInt(z3.IntVal(1))
        return SReal(z3.ToReal(self.t)) ** k

    def __rpow__(self, b):
        raise Unsupported("symbolic exponent")

    def __neg__(self): return SInt(-self.t)
    def __pos__(self): return self
    def __abs__(self): return SInt(z3.If(self.t >= 0, self.t, -self.t))
    def conjugate(self): return self

    def _c(self, o, f):
        if isinstance(o, (float, np.floating, SReal, Fraction)):
            if _is_nan(o):
                return False
            return SBool(f(z3.ToReal(self.t), rterm(o)))
        t = iterm(o)
        if t is None:
            return NotImplemented
        return SBool(f(self.t, t))

    def __lt__(self, o): return self._c(o, lambda a, b: a < b)
    def __le__(self, o): return self._c(o, lambda a, b: a <= b)
    def __gt__(self, o): return self._c(o, lambda a, b: a > b)
    def __ge__(self, o): return self._c(o, lambda a, b: a >= b)
    def __eq__(self, o): return self._c(o, lambda a, b: a == b)
    def __ne__(self, o): return self._c(o, lambda a, b: a != b)
    __hash__ = None

    def __bool__(self):
        return Ctx.cur.branch(self.t != 0)

    def __and__(self, o):
        if not (isinstance(o, int) and o > 0 and (o & (o - 1)) == 0):
            raise Unsupported("bitwise and with a non power of two")
        return SInt(((self.t / o) % 2) * o)

    __rand__ = __and__

    def __index__(self):
        c = Ctx.cur
        for _ in range(4096):
            ev = z3.simplify(c.get_model().eval(self.t, model_completion=True))
            if z3.is_int_value(ev):
                v = ev.as_long()
            else:
                # algebraic numbers in the model leave ToInt(...) unevaluated: evaluate numerically
                # (a candidate only -- branch() below asks the solver whether it is feasible)
                try:
                    v = int(py_eval(c.get_model(), self.t))
                except (ValueError, ZeroDivisionError) as e:
                    raise Unsupported(f"index term has no value in the model: {e}")
                if not c.branch(self.t == v):
                    c.model = None
                    continue
                return v
            if c.branch(self.t == v):
                return v
        raise Abort("too many values for an index")

    def sqrt(self):
        return SReal(z3.ToReal(self.t)).sqrt()

    def __float__(self):
        raise Unsupported("float() of a symbolic int outside a shimmed module")

    def __int__(self):
        raise Unsupported("int() of a symbolic int outside a shimmed module")

    def item(self):
        return self

    def __format__(self, spec):
        k = f"§{len(_tokens)}§"
        _tokens[k] = self
        return k

    def __str__(self):
        return format(self, "")

    def __repr__(self):
        return f"SInt({z3.simplify(self.t)})"


_tokens = {}


def is_sym(x):
    return isinstance(x, (SReal, SInt, SBool))


# ----------------------------------------------------------------------------- builtins look-alikes
# (injected into osyris module namespaces)


def sym_int(x=0, *a):
    """int(): truncation toward zero for symbolic reals, as CPython/numba."""
    if isinstance(x, SInt):
        return x
    if isinstance(x, SReal):
        return x.trunc()
    if isinstance(x, SBool):
        return SInt(iterm(x))
    if isinstance(x, str) and x in _tokens:
        return _tokens[x]
    if isinstance(x, np.ndarray) and x.dtype == object and x.ndim == 0:
        return sym_int(x.item())
    return int(x, *a)


def sym_float(x=0.0):
    if isinstance(x, SReal):
        return x
    if isinstance(x, SInt):
        return SReal(z3.ToReal(x.t))
    if isinstance(x, np.ndarray) and x.dtype == object and x.ndim == 0:
        return sym_float(x.item())
    return float(x)


class _IntMeta(type):
    def __instancecheck__(cls, o):
        return isinstance(o, (int, SInt))

    def __call__(cls, *a):
        return sym_int(*a)


class IntLike(metaclass=_IntMeta):
    pass


class _FloatMeta(type):
    def __instancecheck__(cls, o):
        return isinstance(o, (float, SReal))

    def __call__(cls, *a):
        return sym_float(*a)


class FloatLike(metaclass=_FloatMeta):
    pass


def _merge(a, b, pick_a):
    """If-merge of two numbers under condition pick_a (z3 Bool)."""
    if isinstance(a, (SInt, int, np.integer)) and isinstance(b, (SInt, int, np.integer)):
        return SInt(z3.If(pick_a, iterm(a), iterm(b)))
    return SReal(z3.If(pick_a, rterm(a), rterm(b)))


MERGE_MINMAX = [True]      # False: max/min fork on the comparison instead of building If-terms


def sym_max(*args, **kw):
    orig = args
    if len(args) == 1:
        args = tuple(args[0])
        if not args and "default" in kw:
            return kw["default"]
    if "key" in kw or not any(is_sym(a) for a in args):
        return max(*orig, **kw) if len(orig) != 1 else max(list(args), **kw)
    r = args[0]
    for a in args[1:]:
        c = (a > r)
        if not MERGE_MINMAX[0]:
            r = a if bool(c) else r
            continue
        r = _merge(a, r, c.t if isinstance(c, SBool) else z3.BoolVal(bool(c)))
    if isinstance(r, SInt):
        conc = [int(x) for x in args if isinstance(x, (int, np.integer)) and not isinstance(x, bool)]
        if conc:
            r.lb = max(conc)            # max(x, c) >= c
    return r


def sym_min(*args, **kw):
    orig = args
    if len(args) == 1:
        args = tuple(args[0])
        if not args and "default" in kw:
            return kw["default"]
    if "key" in kw or not any(is_sym(a) for a in args):
        return min(*orig, **kw) if len(orig) != 1 else min(list(args), **kw)
    r = args[0]
    for a in args[1:]:
        c = (a < r)
        if not MERGE_MINMAX[0]:
            r = a if bool(c) else r
            continue
        r = _merge(a, r, c.t if isinstance(c, SBool) else z3.BoolVal(bool(c)))
    if isinstance(r, SInt):
        conc = [int(x) for x in args if isinstance(x, (int, np.integer)) and not isinstance(x, bool)]
        if conc:
            r.ub = min(conc)            # min(x, c) <= c
    return r


def sym_abs(x):
    return abs(x)


def sym_round(x, nd=None):
    if isinstance(x, SReal):
        return x.__round__(nd)
    if isinstance(x, SInt):
        return x
    return round(x) if nd is None else round(x, nd)


def sym_range(*a):
    """range() with symbolic bounds.  When the bounds carry concrete limits (recorded by
    max(x, lo) / min(x, hi)) the iteration space is range(lo, hi) and each value is guarded by
    the symbolic comparisons, so that all values outside [lo, hi) -- which are equivalent --
    are not enumerated one by one."""
    if len(a) == 2 and (isinstance(a[0], SInt) or isinstance(a[1], SInt)):
        lo = getattr(a[0], "lb", None) if isinstance(a[0], SInt) else a[0]
        hi = getattr(a[1], "ub", None) if isinstance(a[1], SInt) else a[1]
        if lo is not None and hi is not None:
            return _guarded_range(a[0], a[1], lo, hi)
    return range(*[x.__index__() if isinstance(x, SInt) else x for x in a])


def _guarded_range(a, b, lo, hi):
    for i in range(lo, hi):
        if bool(a <= i) and bool(i < b):
            yield i


# ----------------------------------------------------------------------------- model helpers


def model_value(m, t):
    """Concrete python number for term t under model m (Fraction for reals)."""
    v = m.eval(t, model_completion=True)
    if z3.is_int_value(v):
        return v.as_long()
    if z3.is_rational_value(v):
        return Fraction(v.numerator_as_long(), v.denominator_as_long())
    if z3.is_algebraic_value(v):
        a = v.approx(20)
        return Fraction(a.numerator_as_long(), a.denominator_as_long())
    if z3.is_true(v):
        return True
    if z3.is_false(v):
        return False
    raise ValueError(f"cannot concretise {v}")


def py_eval(m, t):
    """Numeric value of an arithmetic/boolean term under model m by structural recursion
    (algebraic numbers approximated to 30 digits).  Used only to propose candidate values."""
    import math
    v = z3.simplify(m.eval(t, model_completion=True))
    if z3.is_int_value(v):
        return v.as_long()
    if z3.is_rational_value(v):
        return Fraction(v.numerator_as_long(), v.denominator_as_long())
    if z3.is_algebraic_value(v):
        a = v.approx(30)
        return Fraction(a.numerator_as_long(), a.denominator_as_long())
    if z3.is_true(v):
        return True
    if z3.is_false(v):
        return False
    k = v.decl().kind()
    ch = [py_eval(m, c) for c in v.children()]
    if k == z3.Z3_OP_TO_INT:
        return math.floor(ch[0])
    if k == z3.Z3_OP_TO_REAL:
        return Fraction(ch[0])
    if k == z3.Z3_OP_ADD:
        return sum(ch)
    if k == z3.Z3_OP_SUB:
        r = ch[0]
        for c in ch[1:]:
            r -= c
        return r
    if k == z3.Z3_OP_UMINUS:
        return -ch[0]
    if k == z3.Z3_OP_MUL:
        r = 1
        for c in ch:
            r *= c
        return r
    if k == z3.Z3_OP_DIV:
        return Fraction(ch[0]) / Fraction(ch[1])
    if k == z3.Z3_OP_IDIV:
        return ch[0] // ch[1]
    if k == z3.Z3_OP_MOD:
        return ch[0] % ch[1]
    if k == z3.Z3_OP_ITE:
        return ch[1] if ch[0] else ch[2]
    if k == z3.Z3_OP_LE:
        return ch[0] <= ch[1]
    if k == z3.Z3_OP_LT:
        return ch[0] < ch[1]
    if k == z3.Z3_OP_GE:
        return ch[0] >= ch[1]
    if k == z3.Z3_OP_GT:
        return ch[0] > ch[1]
    if k == z3.Z3_OP_EQ:
        return ch[0] == ch[1]
    if k == z3.Z3_OP_NOT:
        return not ch[0]
    if k == z3.Z3_OP_AND:
        return all(ch)
    if k == z3.Z3_OP_OR:
        return any(ch)
    raise ValueError(f"cannot evaluate {v}")


def concretise(x, m):
    if isinstance(x, (SReal,)):
        return float(model_value(m, x.t))
    if isinstance(x, SInt):
        return int(model_value(m, x.t))
    if isinstance(x, SBool):
        return bool(model_value(m, x.t))
    return x


def model_dict(m, limit=40):
    out = {}
    for d in m.decls():
        if d.arity() != 0:
            continue
        n = d.name()
        if n.startswith(("sqrt!", "cbrt!")):
            continue
        try:
            v = model_value(m, d())
            out[n] = (float(v) if isinstance(v, Fraction) and v.denominator != 1 else
                      (int(v) if isinstance(v, (int, Fraction)) else v))
        except Exception:
            out[n] = str(m[d])
        if len(out) >= limit:
            break
    return out


def R(name):
    return SReal(z3.Real(name))


def I(name):
    return SInt(z3.Int(name))
