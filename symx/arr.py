"""symx.arr -- SymArray: an ndarray subclass with object storage (symbolic scalars) and a
logical dtype; numpy proxies for injection into osyris module namespaces."""
import math

import numpy as np
import z3

from .core import (Abort, Ctx, SBool, SInt, SReal, Unsupported, is_sym, iterm, rterm,
                   sym_max, sym_min, _merge)

CMP = {np.less, np.less_equal, np.greater, np.greater_equal, np.equal, np.not_equal}
LOGIC = {np.logical_and, np.logical_or, np.logical_xor, np.logical_not}


def raw(a):
    """Plain object ndarray view of a SymArray (other values unchanged)."""
    if isinstance(a, SymArray):
        return np.asarray(a).view(np.ndarray)
    return a


def has_sym(a):
    if is_sym(a):
        return True
    if isinstance(a, SymArray):
        return True
    if isinstance(a, np.ndarray):
        if a.dtype != object:
            return False
        return any(is_sym(e) for e in a.ravel())
    if isinstance(a, (list, tuple)):
        return any(has_sym(e) for e in a)
    return False


def _dummy(a):
    """Concrete stand-in with the same shape/dtype, used to ask numpy for result dtypes."""
    if isinstance(a, SymArray):
        return np.ones(a.shape, dtype=a._ld)
    if isinstance(a, np.ndarray):
        if a.dtype == object:
            return np.ones(a.shape, dtype=float)
        return a                # concrete arrays (indices, masks, data) take part as they are
    if isinstance(a, SReal):
        return 1.0
    if isinstance(a, SInt):
        return 1
    if isinstance(a, SBool):
        return True
    if isinstance(a, (list, tuple)):
        return type(a)(_dummy(e) for e in a)
    if isinstance(a, dict):
        return {k: _dummy(v) for k, v in a.items()}
    return a


def _elem_for(ld, e):
    """Coerce element e to the representation used for logical dtype ld."""
    kind = np.dtype(ld).kind
    if kind == "f":
        if isinstance(e, SInt):
            return SReal(z3.ToReal(e.t))
        if isinstance(e, (bool, np.bool_, int, np.integer)):
            return float(e)
        if isinstance(e, np.floating):
            return float(e)
        return e
    if kind in "iu":
        if isinstance(e, SReal):
            return e.trunc()
        if isinstance(e, (float, np.floating)):
            return int(e)
        if isinstance(e, (np.integer, np.bool_, bool)):
            return int(e)
        return e
    return e


def _coerce(res, ld):
    """Object array -> SymArray of logical dtype ld, or a plain ndarray when no symbol is left."""
    if not isinstance(res, np.ndarray):
        res = np.asarray(res, dtype=object)
    ld = np.dtype(ld)
    if ld.kind == "b":
        f = np.frompyfunc(lambda e: bool(e), 1, 1)
        out = f(res)
        return np.asarray(out, dtype=bool) if np.ndim(out) else np.bool_(out)
    if res.dtype != object:
        return res.astype(ld)
    f = np.frompyfunc(lambda e: _elem_for(ld, e), 1, 1)
    out = np.asarray(f(res), dtype=object).reshape(res.shape)
    return SymArray(out, ld)


class SymArray(np.ndarray):
    def __new__(cls, data, ldtype="float64"):
        if isinstance(data, np.ndarray) and data.dtype == object:
            arr = raw(data)            # a view: aliasing is numpy's own
        else:
            arr = _to_object(data)
        obj = arr.view(cls)
        obj._ld = np.dtype(ldtype)
        return obj

    def __array_finalize__(self, obj):
        self._ld = getattr(obj, "_ld", np.dtype("float64"))

    @property
    def dtype(self):
        return self._ld

    @property
    def nbytes(self):
        return self.size * self._ld.itemsize

    def __reduce__(self):
        raise Unsupported("pickling a SymArray")

    def astype(self, dtype, *a, **k):
        dt = np.dtype(dtype)
        if dt == object:
            return raw(self).copy()
        return _coerce(raw(self), dt)

    def copy(self, *a, **k):
        return SymArray(np.array(raw(self), dtype=object, copy=True), self._ld)

    def __deepcopy__(self, memo):
        return self.copy()

    def __copy__(self):
        return self.copy()

    def item(self, *a):
        return raw(self).item(*a)

    def __getitem__(self, k):
        if isinstance(k, SymArray):
            raise Unsupported("indexing with a symbolic array")
        if isinstance(k, SInt):
            k = k.__index__()
        if isinstance(k, tuple):
            k = tuple(x.__index__() if isinstance(x, SInt) else x for x in k)
        r = np.ndarray.__getitem__(self, k)
        return r

    def __setitem__(self, k, v):
        if isinstance(k, SInt):
            k = k.__index__()
        if isinstance(k, tuple):
            k = tuple(x.__index__() if isinstance(x, SInt) else x for x in k)
        if isinstance(v, SymArray):
            v = raw(v)
        if isinstance(v, np.ndarray) and v.dtype != object:
            v = v.astype(object)
        if isinstance(v, np.ndarray):
            v = np.asarray(np.frompyfunc(lambda e: _elem_for(self._ld, e), 1, 1)(v), dtype=object)
        elif not isinstance(v, (list, tuple)):
            v = _elem_for(self._ld, v)
        np.ndarray.__setitem__(self, k, v)

    def __bool__(self):
        if self.size != 1:
            raise ValueError("The truth value of an array with more than one element is ambiguous.")
        return bool(raw(self).ravel()[0])

    def __float__(self):
        raise Unsupported("float() of a symbolic array")

    def __repr__(self):
        return f"SymArray({raw(self)!r}, {self._ld})"

    __str__ = __repr__

    # reductions called as methods go through the array-function path
    def sum(self, *a, **k): return np.sum(self, *a, **k)
    def min(self, *a, **k): return np.amin(self, *a, **k)
    def max(self, *a, **k): return np.amax(self, *a, **k)
    def mean(self, *a, **k): return np.mean(self, *a, **k)
    def take(self, ind, *a, **k): return np.take(self, ind, *a, **k)

    def __array_ufunc__(self, ufunc, method, *inputs, out=None, **kw):
        if method == "reduce" and ufunc in (np.add, np.multiply, np.maximum, np.minimum,
                                            np.logical_and, np.logical_or):
            fn = {np.add: np.sum, np.multiply: np.prod, np.maximum: np.amax,
                  np.minimum: np.amin, np.logical_and: np.all, np.logical_or: np.any}[ufunc]
            kw.pop("dtype", None)
            kw.pop("initial", None) if kw.get("initial", 1) is np._NoValue else None
            kw2 = {k: v for k, v in kw.items() if k in ("axis", "keepdims") and v is not np._NoValue}
            return fn(inputs[0], **kw2)
        if method in ("accumulate", "outer") and ufunc in _UF and out is None and not kw and \
                all(isinstance(i, np.ndarray) and i.ndim == 1 for i in inputs):
            # 1-D accumulate / outer of a binary ufunc: built from the element operation; dtype from a dummy run
            fn2 = _UF[ufunc]
            dres = getattr(ufunc, method)(*_dummy(list(inputs)))
            if method == "accumulate":
                xs = list(_unwrap(inputs[0]).astype(object) if isinstance(inputs[0], SymArray) else np.asarray(inputs[0], dtype=object))
                acc, res = None, []
                for x in xs:
                    acc = x if acc is None else fn2(acc, x)
                    res.append(acc)
                o = np.empty(len(res), dtype=object)
                o[:] = res
            else:
                xa = np.asarray(_unwrap(inputs[0]), dtype=object)
                xb = np.asarray(_unwrap(inputs[1]), dtype=object)
                o = np.empty((len(xa), len(xb)), dtype=object)
                for i_, x in enumerate(xa):
                    for j_, y in enumerate(xb):
                        o[i_, j_] = fn2(x, y)
            return _coerce(o, dres.dtype)
        if method != "__call__":
            raise Unsupported(f"ufunc method {method} of {ufunc.__name__}")
        for i in inputs + (out or ()):
            # defer to operands that override the protocol (osyris Array/Vector, pint Quantity)
            if not isinstance(i, np.ndarray) and not is_sym(i) and \
                    getattr(type(i), "__array_ufunc__", None) is not None:
                return NotImplemented
        kw.pop("dtype", None)
        kw.pop("casting", None)
        where = kw.pop("where", True)
        if where is not True:
            raise Unsupported("ufunc where=")
        # result dtype and casting errors are numpy's own, obtained from concrete dummies
        dummies = [_dummy(i) for i in inputs]
        with np.errstate(all="ignore"):
            if out is not None:
                dres = ufunc(*dummies, out=tuple(_dummy(o).copy() if isinstance(_dummy(o), np.ndarray)
                                                 else _dummy(o) for o in out))
            else:
                dres = ufunc(*dummies)
        ld = dres.dtype
        raws = [raw(i) for i in inputs]
        raws = [r.astype(object) if isinstance(r, np.ndarray) and r.dtype != object else r for r in raws]
        res = _apply_ufunc(ufunc, raws, [getattr(i, "dtype", None) for i in inputs])
        if ufunc in CMP or ufunc in LOGIC or ld.kind == "b":
            resb = _coerce(np.asarray(res, dtype=object), bool)
            if out is not None:
                o = out[0]
                o[...] = resb
                return o
            return resb
        if out is not None:
            o = out[0]
            if isinstance(o, SymArray):
                f = np.frompyfunc(lambda e: _elem_for(o._ld, e), 1, 1)
                raw(o)[...] = f(np.asarray(res, dtype=object))
            else:
                if has_sym(np.asarray(res, dtype=object)):
                    raise Unsupported("symbolic result written into a concrete out= array")
                o[...] = res
            return o
        return _coerce(np.asarray(res, dtype=object), ld)

    def __array_function__(self, func, types, args, kwargs):
        h = _FUNCS.get(func)
        if h is not None:
            return h(*args, **kwargs)
        if func.__name__ not in _GENERIC_OK:
            raise Unsupported(f"numpy function {func.__name__} on a symbolic array")
        return _generic_function(func, args, kwargs)


def _flatten(lst, ndim):
    if ndim == 0:
        return [lst]
    out = []
    for e in lst:
        if ndim == 1:
            out.append(e.item() if isinstance(e, np.ndarray) and e.ndim == 0 else e)
        else:
            out.extend(_flatten(e, ndim - 1))
    return out


# ----------------------------------------------------------------------------- ufuncs


def _e_isfinite(e):
    return True if is_sym(e) else math.isfinite(e)


def _e_isnan(e):
    return False if is_sym(e) else (e != e)


def _e_sqrt(e):
    if is_sym(e):
        return e.sqrt()
    return math.sqrt(e) if e >= 0 else float("nan")


def _e_cbrt(e):
    if is_sym(e):
        return (e if isinstance(e, SReal) else SReal(rterm(e))).cbrt()
    return float(np.cbrt(e))


def _e_log10(e):
    if is_sym(e):
        x = e if isinstance(e, SReal) else SReal(rterm(e))
        if not Ctx.cur.branch(x.t > 0):
            raise Abort("cut: log10 of a non-positive number")
        return x.log10()
    return float(np.log10(e))


def _e_div(a, b):
    if not is_sym(b) and not is_sym(a):
        with np.errstate(all="ignore"):
            return float(np.float64(a) / np.float64(b))
    if not is_sym(b) and b == 0:
        raise Abort("cut: division by concrete zero")
    if isinstance(a, (int, np.integer, bool, np.bool_)):
        a = float(a)
    if isinstance(a, SInt):
        a = SReal(z3.ToReal(a.t))
    return a / b


def _e_recip(a):
    """numpy's reciprocal: 1/x for floats; for integer dtypes the integer quotient 1 // x truncated toward zero
    (1 -> 1, -1 -> -1, |x| > 1 -> 0)."""
    if isinstance(a, SInt):
        return SInt(z3.If(a.t == 1, z3.IntVal(1), z3.If(a.t == -1, z3.IntVal(-1), z3.IntVal(0))))
    if isinstance(a, (int, np.integer)) and not isinstance(a, (bool, np.bool_)):
        if a == 0:
            raise Abort("cut: integer reciprocal of zero")
        return int(1 / a)
    return _e_div(1.0, a)


def _e_floordiv(a, b):
    if isinstance(a, (SInt, int, np.integer)) and isinstance(b, (SInt, int, np.integer)):
        if not is_sym(b) and b == 0:
            raise Abort("cut: division by concrete zero")
        if is_sym(b):
            raise Unsupported("floor division by a symbolic int")
        if b < 0:
            raise Unsupported("floor division by a negative int")
        return (a if isinstance(a, SInt) else SInt(iterm(a))) // b
    q = _e_div(a, b)
    return SReal(z3.ToReal(z3.ToInt(q.t))) if is_sym(q) else math.floor(q)


def _e_pow(a, k):
    if is_sym(k):
        raise Unsupported("symbolic exponent")
    if is_sym(a):
        return a ** k
    with np.errstate(all="ignore"):
        return a ** k


def _e_max(a, b):
    if not is_sym(a) and not is_sym(b):
        if a != a or b != b:
            return float("nan")
        return a if a >= b else b
    if (not is_sym(a) and a != a) or (not is_sym(b) and b != b):
        return float("nan")
    return sym_max(a, b)


def _e_min(a, b):
    if not is_sym(a) and not is_sym(b):
        if a != a or b != b:
            return float("nan")
        return a if a <= b else b
    if (not is_sym(a) and a != a) or (not is_sym(b) and b != b):
        return float("nan")
    return sym_min(a, b)


def _truth(e):
    if isinstance(e, SBool):
        return e
    if is_sym(e):
        return e != 0
    return bool(e)


def _e_and(a, b):
    r = _truth(a) & _truth(b)
    return r


def _e_or(a, b):
    return _truth(a) | _truth(b)


def _e_xor(a, b):
    return _truth(a) ^ _truth(b)


def _e_not(a):
    t = _truth(a)
    return (~t) if isinstance(t, SBool) else (not t)


def _e_sign(a):
    if is_sym(a):
        return _merge(1, _merge(-1, 0, rterm(a) < 0), rterm(a) > 0)
    return (a > 0) - (a < 0)


_UF = {
    np.add: lambda a, b: a + b,
    np.subtract: lambda a, b: a - b,
    np.multiply: lambda a, b: a * b,
    np.true_divide: _e_div,
    np.floor_divide: _e_floordiv,
    np.power: _e_pow,
    np.negative: lambda a: -a,
    np.positive: lambda a: a,
    np.absolute: lambda a: abs(a),
    np.fabs: lambda a: abs(a),
    np.sqrt: _e_sqrt,
    np.cbrt: _e_cbrt,
    np.square: lambda a: a * a,
    np.reciprocal: lambda a: _e_recip(a),
    np.log10: _e_log10,
    np.maximum: _e_max,
    np.minimum: _e_min,
    np.fmax: _e_max,
    np.fmin: _e_min,
    np.less: lambda a, b: a < b,
    np.less_equal: lambda a, b: a <= b,
    np.greater: lambda a, b: a > b,
    np.greater_equal: lambda a, b: a >= b,
    np.equal: lambda a, b: a == b,
    np.not_equal: lambda a, b: a != b,
    np.logical_and: _e_and,
    np.logical_or: _e_or,
    np.logical_xor: _e_xor,
    np.logical_not: _e_not,
    np.isfinite: _e_isfinite,
    np.isnan: _e_isnan,
    np.isinf: lambda a: False if is_sym(a) else math.isinf(a),
    np.sign: _e_sign,
    np.conjugate: lambda a: a,
}


def _apply_ufunc(ufunc, raws, in_dtypes):
    fn = _UF.get(ufunc)
    if fn is None:
        raise Unsupported(f"ufunc {ufunc.__name__} on a symbolic array")

    def g(*es):
        es = [e.item() if isinstance(e, np.ndarray) and e.ndim == 0 else e for e in es]
        es = [(float(e) if isinstance(e, np.floating) else int(e) if isinstance(e, np.integer)
               else bool(e) if isinstance(e, np.bool_) else e) for e in es]
        return fn(*es)

    return np.frompyfunc(g, len(raws), 1)(*raws)


# ----------------------------------------------------------------------------- array functions


def _unwrap(x):
    if isinstance(x, SymArray):
        return raw(x)
    if isinstance(x, (list, tuple)):
        return type(x)(_unwrap(e) for e in x)
    return x


def _first_ld(args):
    for a in args:
        if isinstance(a, SymArray):
            return a._ld
        if isinstance(a, (list, tuple)):
            r = _first_ld(a)
            if r is not None:
                return r
    return None


def _generic_function(func, args, kwargs):
    """Run a numpy function natively on the object storage; dtype from a concrete dummy run."""
    with np.errstate(all="ignore"):
        dres = func(*_dummy(list(args)), **_dummy(kwargs))
    res = func(*_unwrap(args), **{k: _unwrap(v) for k, v in kwargs.items()})
    return _rewrap(res, dres)


def _rewrap(res, dres):
    if isinstance(res, tuple):
        return tuple(_rewrap(r, d) for r, d in zip(res, dres))
    if isinstance(res, list):
        return [_rewrap(r, d) for r, d in zip(res, dres)]
    if isinstance(res, np.ndarray) and res.dtype == object:
        ld = dres.dtype if hasattr(dres, "dtype") else np.dtype(float)
        return _coerce(res, ld)
    if is_sym(res) and hasattr(dres, "dtype") and np.ndim(dres) == 0:
        return _elem_for(dres.dtype, res)
    return res


_GENERIC_OK = {
    "concatenate", "where", "reshape", "ravel", "transpose", "take", "squeeze", "expand_dims",
    "stack", "vstack", "hstack", "broadcast_to", "broadcast_arrays", "atleast_1d", "atleast_2d",
    "append", "insert", "delete", "flip", "roll", "repeat", "tile", "moveaxis", "swapaxes",
    "copy", "shape", "ndim", "size", "array_equal", "result_type", "can_cast", "meshgrid",
    "compress", "diagonal", "column_stack", "dstack", "split", "array_split", "copyto",
    "shares_memory", "may_share_memory", "empty_like", "iscomplexobj", "isrealobj", "isscalar",
    "nonzero", "argwhere", "count_nonzero", "unravel_index", "ix_", "array_repr", "array_str",
    "full_like",
}


def _axis_apply(f1d, a, axis, keepdims=False):
    """Apply a 1-D reduction over `axis` (None = flattened) of an object array."""
    a = np.asarray(_unwrap(a), dtype=object) if not isinstance(a, np.ndarray) else _unwrap(a)
    if a.dtype != object:
        a = a.astype(object)
    if axis is None:
        r = f1d(list(a.ravel()))
        if keepdims:
            out = np.empty((1,) * a.ndim, dtype=object)
            out[...] = r
            return out
        return r
    if isinstance(axis, tuple):
        raise Unsupported("tuple axis")
    axis = axis % a.ndim
    moved = np.moveaxis(a, axis, -1)
    out = np.empty(moved.shape[:-1], dtype=object)
    for idx in np.ndindex(*moved.shape[:-1]):
        out[idx] = f1d(list(moved[idx]))
    if keepdims:
        out = np.expand_dims(out, axis)
    return out


def _reducer(name, f1d, dtype_from=None):
    npf = getattr(np, name)

    def h(a, axis=None, out=None, keepdims=False, dtype=None, **kw):
        for k, v in kw.items():
            if v is not np._NoValue and k not in ("initial", "where", "ddof"):
                raise Unsupported(f"{name}({k}=)")
        if out is not None:
            raise Unsupported(f"{name}(out=)")
        extra = {k: v for k, v in kw.items() if k == "ddof" and v is not np._NoValue}
        with np.errstate(all="ignore"):
            dkw = dict(axis=axis, **extra)
            if keepdims:
                dkw["keepdims"] = True
            dres = npf(_dummy(a), **dkw)
        res = _axis_apply(lambda xs: f1d(xs, **extra), a, axis, keepdims)
        ld = np.asarray(dres).dtype
        if isinstance(res, np.ndarray):
            return _coerce(res, ld)
        return _elem_for(ld, res) if is_sym(res) else np.asarray(dres).dtype.type(res)
    return h


def _sum1(xs):
    r = 0
    for x in xs:
        r = r + x
    return r


def _prod1(xs):
    r = 1
    for x in xs:
        r = r * x
    return r


def _nanfree(xs):
    return [x for x in xs if is_sym(x) or x == x]


def _mean1(xs):
    if len(xs) == 0:
        return float("nan")
    return _e_div(_sum1(xs), len(xs))


def _is_inf(x, sign):
    return (not is_sym(x)) and isinstance(x, (float, np.floating)) and math.isinf(x) and (x > 0) == (sign > 0)


def _max1(xs):
    # concrete infinities next to symbols (symbols are finite reals): +inf dominates, -inf never wins unless alone
    if any(_is_inf(x, +1) for x in xs):
        return float("inf")
    ys = [x for x in xs if not _is_inf(x, -1)] or [float("-inf")]
    r = ys[0]
    for x in ys[1:]:
        r = _e_max(r, x)
    return r


def _min1(xs):
    if any(_is_inf(x, -1) for x in xs):
        return float("-inf")
    ys = [x for x in xs if not _is_inf(x, +1)] or [float("inf")]
    r = ys[0]
    for x in ys[1:]:
        r = _e_min(r, x)
    return r


def _order(xs):
    """Stable ascending order of xs decided by forking comparisons (insertion sort)."""
    idx = []
    for i, x in enumerate(xs):
        j = len(idx)
        while j > 0 and bool(xs[idx[j - 1]] > x):
            j -= 1
        idx.insert(j, i)
    return idx


def _median1(xs):
    o = _order(xs)
    n = len(o)
    if n == 0:
        return float("nan")
    if n % 2:
        return xs[o[n // 2]]
    return _e_div(xs[o[n // 2 - 1]] + xs[o[n // 2]], 2)


def _var1(xs, ddof=0):
    m = _mean1(xs)
    return _e_div(_sum1([(x - m) * (x - m) for x in xs]), len(xs) - ddof)


def _std1(xs, ddof=0):
    v = _var1(xs, ddof)
    return _e_sqrt(v)


def _nan_wrap(f):
    def g(xs, **k):
        ys = _nanfree(xs)
        if not ys:
            return float("nan")
        return f(ys, **k)
    return g


def _nansum1(xs):
    return _sum1(_nanfree(xs))


def _h_argsort(a, axis=-1, kind=None, order=None, **kw):
    a = _unwrap(a)
    if a.ndim == 0:
        return np.array(0)
    res = _axis_apply_vec(lambda xs: _order(xs), a, axis, int)
    return res


def _axis_apply_vec(f1d, a, axis, dtype):
    if axis is None:
        a = a.ravel()
        axis = 0
    axis = axis % a.ndim
    moved = np.moveaxis(a, axis, -1)
    out = np.empty(moved.shape, dtype=dtype)
    for idx in np.ndindex(*moved.shape[:-1]):
        out[idx] = f1d(list(moved[idx]))
    return np.moveaxis(out, -1, axis)


def _h_sort(a, axis=-1, kind=None, order=None, **kw):
    ld = a._ld if isinstance(a, SymArray) else np.asarray(a).dtype
    r = _unwrap(a)
    res = _axis_apply_vec(lambda xs: [xs[i] for i in _order(xs)], r, axis, object)
    return _coerce(res, ld)


def _h_cumsum(a, axis=None, dtype=None, out=None):
    if out is not None:
        raise Unsupported("cumsum(out=)")
    dres = np.cumsum(_dummy(a), axis=axis)

    def f(xs):
        r, acc = [], 0
        for x in xs:
            acc = acc + x
            r.append(acc)
        return r
    res = _axis_apply_vec(f, _unwrap(a), axis, object)
    return _coerce(res, dres.dtype)


def _h_diff(a, n=1, axis=-1, **kw):
    if n != 1 or kw:
        raise Unsupported("diff(n!=1)")
    dres = np.diff(_dummy(a), axis=axis)
    r = _unwrap(a)
    r = np.moveaxis(r, axis, -1)
    res = np.moveaxis(np.asarray(_apply_ufunc(np.subtract, [r[..., 1:], r[..., :-1]], None),
                                 dtype=object).reshape(r.shape[:-1] + (r.shape[-1] - 1,)), -1, axis)
    return _coerce(res, dres.dtype)


def _h_clip(a, a_min=None, a_max=None, out=None, **kw):
    if out is not None:
        raise Unsupported("clip(out=)")
    r = a
    if a_min is not None:
        r = np.maximum(r, a_min)
    if a_max is not None:
        r = np.minimum(r, a_max)
    return r


def _h_any(a, axis=None, **kw):
    return np.any(np.asarray(_coerce(_unwrap(a), bool)), axis=axis)


def _h_all(a, axis=None, **kw):
    return np.all(np.asarray(_coerce(_unwrap(a), bool)), axis=axis)


def _h_zeros_like(a, dtype=None, **kw):
    return NP._mk(np.shape(a), dtype or getattr(a, "dtype", float), 0)


def _h_ones_like(a, dtype=None, **kw):
    return NP._mk(np.shape(a), dtype or getattr(a, "dtype", float), 1)


def _h_dot(a, b, out=None):
    a_, b_ = _unwrap(a), _unwrap(b)
    dres = np.dot(_dummy(a), _dummy(b))
    res = np.dot(np.asarray(a_, dtype=object), np.asarray(b_, dtype=object))
    if isinstance(res, np.ndarray):
        return _coerce(res, dres.dtype)
    return res


def _isclose(a, b, rtol=1e-05, atol=1e-08, equal_nan=False):
    """numpy's definition |a - b| <= atol + rtol |b|, decided on the path (each element comparison may fork)."""
    def f(x, y):
        nx, ny = (not is_sym(x)) and x != x, (not is_sym(y)) and y != y
        if nx or ny:
            return bool(equal_nan and nx and ny)
        return bool(abs(x - y) <= atol + rtol * abs(y))
    r = np.frompyfunc(f, 2, 1)(_unwrap(a), _unwrap(b))
    return np.asarray(r, dtype=bool) if np.ndim(r) else bool(r)


def _h_isclose(a, b, **k):
    return _isclose(a, b, **k)


def _h_allclose(a, b, **k):
    return bool(np.all(_isclose(a, b, **k)))


def _h_argmax(a, axis=None, **kw):
    def f(xs):
        b = 0
        for i in range(1, len(xs)):
            if bool(xs[i] > xs[b]):
                b = i
        return b
    res = _axis_apply(f, a, axis)
    return np.int64(res) if not isinstance(res, np.ndarray) else res.astype(np.int64)


def _h_argmin(a, axis=None, **kw):
    def f(xs):
        b = 0
        for i in range(1, len(xs)):
            if bool(xs[i] < xs[b]):
                b = i
        return b
    res = _axis_apply(f, a, axis)
    return np.int64(res) if not isinstance(res, np.ndarray) else res.astype(np.int64)


def _h_linalg_norm(x, ord=None, axis=None, keepdims=False):
    if ord not in (None, 2):
        raise Unsupported("norm ord")
    return _reducer("sum", lambda xs: _e_sqrt(_sum1([v * v for v in xs])))(x, axis=axis)


_FUNCS = {
    np.sum: _reducer("sum", _sum1),
    np.prod: _reducer("prod", _prod1),
    np.mean: _reducer("mean", _mean1),
    np.amax: _reducer("amax", _max1),
    np.amin: _reducer("amin", _min1),
    np.max: _reducer("max", _max1),
    np.min: _reducer("min", _min1),
    np.median: _reducer("median", _median1),
    np.std: _reducer("std", _std1),
    np.var: _reducer("var", _var1),
    np.nansum: _reducer("nansum", _nansum1),
    np.nanmean: _reducer("nanmean", _nan_wrap(_mean1)),
    np.nanmax: _reducer("nanmax", _nan_wrap(_max1)),
    np.nanmin: _reducer("nanmin", _nan_wrap(_min1)),
    np.nanmedian: _reducer("nanmedian", _nan_wrap(_median1)),
    np.nanstd: _reducer("nanstd", _nan_wrap(_std1)),
    np.ptp: _reducer("ptp", lambda xs: _max1(xs) - _min1(xs)),
    np.average: (lambda a, axis=None, weights=None, **kw: _FUNCS[np.mean](a, axis=axis) if weights is None
                 else (_ for _ in ()).throw(Unsupported("np.average with weights"))),
    np.argsort: _h_argsort,
    np.sort: _h_sort,
    np.cumsum: _h_cumsum,
    np.diff: _h_diff,
    np.clip: _h_clip,
    np.any: _h_any,
    np.all: _h_all,
    np.zeros_like: _h_zeros_like,
    np.ones_like: _h_ones_like,
    np.dot: _h_dot,
    np.isclose: _h_isclose,
    np.allclose: _h_allclose,
    np.argmax: _h_argmax,
    np.argmin: _h_argmin,
    np.linalg.norm: _h_linalg_norm,
}


# ----------------------------------------------------------------------------- numpy proxy


class NPProxy:
    """Forwards to numpy except for array creation, which returns SymArrays when symbols
    are involved.  Injected as `np` into osyris module namespaces."""

    def __getattr__(self, k):
        return getattr(np, k)

    @staticmethod
    def _mk(shape, dtype, fill):
        dt = np.dtype(dtype) if dtype is not None else np.dtype(float)
        if dt.kind == "b":
            return np.full(shape, bool(fill), dtype=bool)
        if dt.kind not in "iuf":
            return np.full(shape, fill, dtype=dt)
        a = np.empty(shape, dtype=object)
        f = _elem_for(dt, fill)
        a[...] = f
        return SymArray(a, dt)

    def zeros(self, shape, dtype=None, **kw): return self._mk(shape, dtype, 0)
    def ones(self, shape, dtype=None, **kw): return self._mk(shape, dtype, 1)
    def empty(self, shape, dtype=None, **kw): return self._mk(shape, dtype, 0)
    def full(self, shape, fill_value, dtype=None, **kw):
        if dtype is None:
            dtype = np.asarray(_dummy(fill_value)).dtype
        return self._mk(shape, dtype, fill_value)

    def zeros_like(self, a, dtype=None, **kw):
        return self._mk(np.shape(a), dtype or getattr(a, "dtype", float), 0)

    def ones_like(self, a, dtype=None, **kw):
        return self._mk(np.shape(a), dtype or getattr(a, "dtype", float), 1)

    def asarray(self, a, dtype=None, **kw):
        if isinstance(a, SymArray):
            return a if dtype is None else a.astype(dtype)
        if isinstance(a, np.ndarray):
            return np.asarray(a, dtype=dtype, **kw)
        return self.array(a, dtype=dtype, **kw)

    def array(self, a, dtype=None, copy=True, **kw):
        if isinstance(a, SymArray):
            return a.copy() if dtype is None else a.astype(dtype)
        if not has_sym(a):
            return np.array(a, dtype=dtype, **kw)
        arr = _to_object(a)
        if dtype is None:
            dtype = np.asarray(_dummy_nested(a)).dtype
        return _coerce(arr, dtype)

    def linspace(self, a, b, n=50, **kw):
        if not (is_sym(a) or is_sym(b)):
            return np.linspace(a, b, n, **kw)
        n = n.__index__() if isinstance(n, SInt) else int(n)
        if n == 1:
            return SymArray([a * 1.0], "float64")
        step = (b - a) / (n - 1)
        return SymArray([a + step * i for i in range(n)], "float64")

    def isnan(self, a):
        if has_sym(a):
            f = np.frompyfunc(_e_isnan, 1, 1)
            r = f(_unwrap(a))
            return np.asarray(r, dtype=bool) if np.ndim(r) else bool(r)
        return np.isnan(a)

    def isfinite(self, a):
        if has_sym(a):
            f = np.frompyfunc(_e_isfinite, 1, 1)
            r = f(_unwrap(a))
            return np.asarray(r, dtype=bool) if np.ndim(r) else bool(r)
        return np.isfinite(a)

    def sqrt(self, a, **kw):
        if is_sym(a):
            return a.sqrt()
        return np.sqrt(a, **kw)

    def isclose(self, a, b, **kw):
        if has_sym(a) or has_sym(b):
            return _isclose(a, b, **kw)
        return np.isclose(a, b, **kw)

    def where(self, *args, **kw):
        # 0-d condition with symbolic branches: a plain selection (the condition was decided on the path)
        if len(args) == 3 and not kw and np.ndim(args[0]) == 0 and isinstance(args[0], (bool, np.bool_)) and \
                (is_sym(args[1]) or is_sym(args[2])):
            return args[1] if bool(args[0]) else args[2]
        return np.where(*args, **kw)

    def abs(self, a, **kw):
        if is_sym(a):
            return abs(a)
        return np.abs(a, **kw)

    def log10(self, a, **kw):
        if is_sym(a):
            return _e_log10(a)
        return np.log10(a, **kw)

    def maximum(self, a, b, **kw):
        if is_sym(a) or is_sym(b):
            return _e_max(a, b)
        return np.maximum(a, b, **kw)

    def minimum(self, a, b, **kw):
        if is_sym(a) or is_sym(b):
            return _e_min(a, b)
        return np.minimum(a, b, **kw)

    def atleast_2d(self, a):
        return np.atleast_2d(a)

    def floor(self, a, **kw):
        if is_sym(a):
            if isinstance(a, SInt):
                return a
            return SReal(z3.ToReal(z3.ToInt(a.t)))
        return np.floor(a, **kw)

    def logspace(self, a, b, n=50, **kw):
        if not (is_sym(a) or is_sym(b)):
            return np.logspace(a, b, n, **kw)
        from .core import POW10
        lin = self.linspace(a, b, n)
        return SymArray([SReal(POW10(rterm(e))) for e in raw(lin).ravel()], "float64")

    @property
    def ma(self):
        return MA

    def ndim(self, a):
        return 0 if is_sym(a) else np.ndim(a)

    def shape(self, a):
        return () if is_sym(a) else np.shape(a)


def _to_object(a):
    if isinstance(a, np.ndarray):
        return _unwrap(a).astype(object) if a.dtype != object or isinstance(a, SymArray) else a
    if is_sym(a) or not isinstance(a, (list, tuple)):
        o = np.empty((), dtype=object)
        o[()] = a
        return o
    parts = [_to_object(e) for e in a]
    shape = parts[0].shape if parts else ()
    out = np.empty((len(parts),) + shape, dtype=object)
    for i, p in enumerate(parts):
        if p.shape != shape:
            raise ValueError("inhomogeneous shape")
        out[i] = p if p.ndim else p.item()
    return out


def _dummy_nested(a):
    if isinstance(a, (list, tuple)):
        return [_dummy_nested(e) for e in a]
    return _dummy(a)


class SymMasked:
    """Stand-in for numpy.ma.MaskedArray over symbolic data: .data, .mask, .filled()."""

    def __init__(self, data, mask):
        self.data = data
        self.mask = np.asarray(mask, dtype=bool)
        self.shape = np.shape(data)

    def filled(self, fill=np.nan):
        out = np.array(raw(self.data), dtype=object, copy=True)
        m = np.broadcast_to(self.mask, out.shape)
        out[m] = fill
        return SymArray(out, getattr(self.data, "dtype", float))

    @property
    def T(self):
        return SymMasked(self.data.T, self.mask.T)


class MAProxy:
    def __getattr__(self, k):
        return getattr(np.ma, k)

    def masked_where(self, cond, a, copy=True):
        if isinstance(a, SymArray) or has_sym(a):
            return SymMasked(a, np.broadcast_to(np.asarray(cond, dtype=bool), np.shape(a)))
        return np.ma.masked_where(cond, a, copy=copy)


MA = MAProxy()
NP = NPProxy()


def sarray(vals, ldtype="float64"):
    """Build a SymArray from a (nested) list of symbolic/concrete scalars."""
    return _coerce(_to_object(vals), ldtype) if has_sym(vals) else np.array(vals, dtype=ldtype)


def terms_of(a):
    """List of z3 Real terms of a (Sym)array / scalar in C order."""
    if is_sym(a):
        return [rterm(a)]
    arr = np.asarray(_unwrap(a) if isinstance(a, SymArray) else a)
    if arr.dtype != object:
        arr = arr.astype(object)
    out = []
    for e in arr.ravel():
        if isinstance(e, (float, np.floating)) and e != e:
            out.append(None)
        else:
            out.append(rterm(e))
    return out
