"""symx.interfere -- two-iteration interference analysis of a numba `prange` loop.

The loop body is cut out of the function's AST (regenerated from /repo's source on every
run), the statements before the loop are executed once on symbolic inputs, and the body is
executed for two distinct iterations with every array it shares wrapped so that element
reads and writes are logged with their (symbolic) index.  A write of one iteration hitting
an element the other iteration reads or writes makes the result depend on the
interleaving, unless the caller's `allowed` predicate says the overlap is permitted by the
property's premise.

Stated assumption: numba executes the Python semantics of the loop body per iteration, in
any order and interleaving; `x[i] += v` is a read followed by a write."""
import ast
import inspect
import textwrap

import numpy as np

from .arr import SymArray
from .core import SInt, iterm


def split_parallel_loop(pyfunc):
    """(prologue function returning locals(), loop AST node, globals dict) for the first
    `for v in prange(...)` of pyfunc; None if there is no such loop."""
    src = textwrap.dedent(inspect.getsource(pyfunc))
    tree = ast.parse(src)
    fdef = tree.body[0]
    fdef.decorator_list = []
    idx = None
    for i, st in enumerate(fdef.body):
        if isinstance(st, ast.For) and isinstance(st.iter, ast.Call) and getattr(st.iter.func, "id", "") == "prange":
            idx = i
            break
    if idx is None:
        return None
    loop = fdef.body[idx]
    pro = ast.FunctionDef(name="_prologue", args=fdef.args,
                          body=fdef.body[:idx] + [ast.Return(ast.Call(ast.Name("locals", ast.Load()), [], []))],
                          decorator_list=[], type_params=[])
    mod = ast.Module([pro], [])
    ast.fix_missing_locations(mod)
    g = dict(pyfunc.__globals__)
    exec(compile(mod, "<prologue of %s>" % pyfunc.__name__, "exec"), g)
    return g["_prologue"], loop, g


class Logged(SymArray):
    """Shared array logging the element accesses of the current iteration."""
    _log = None
    _iter = None
    _name = "?"

    def __getitem__(self, k):
        k = _conc_key(k)
        Logged._log.append((Logged._iter[0], "R", self._name, k))
        return np.ndarray.__getitem__(self.view(SymArray), k)

    def __setitem__(self, k, v):
        k = _conc_key(k)
        Logged._log.append((Logged._iter[0], "W", self._name, k))
        SymArray.__setitem__(self.view(SymArray), k, v)


def _conc_key(k):
    if not isinstance(k, tuple):
        k = (k,)
    return tuple(x.__index__() if isinstance(x, SInt) else x for x in k)


def run_two_iterations(pyfunc, args, stubs, iters=(0, 1), private=()):
    """Execute prologue + body for two iterations.  Returns (log, env) or None when the function
    has no prange loop.  stubs: names rebound in the function's globals (np, int, prange...)."""
    sp = split_parallel_loop(pyfunc)
    if sp is None:
        return None
    pro, loop, g = sp
    g.update(stubs)
    log = []
    it = [None]
    Logged._log, Logged._iter = log, it
    env = pro(*args)
    argnames = set(inspect.signature(pyfunc).parameters)
    written = {n.value.id for n in ast.walk(loop) if isinstance(n, ast.Subscript) and isinstance(n.ctx, ast.Store)
               and isinstance(n.value, ast.Name)}
    for k, v in list(env.items()):
        if isinstance(v, np.ndarray) and k in written and k not in private:
            if not isinstance(v, SymArray):
                v = SymArray(v.astype(object), v.dtype)
            lv = v.view(Logged)
            lv._ld = v._ld
            lv._name = k
            env[k] = lv
    code = compile(ast.fix_missing_locations(ast.Module(loop.body, [])), "<body of %s>" % pyfunc.__name__, "exec")
    for i in iters:
        it[0] = i
        env[loop.target.id] = i
        exec(code, g, env)
    return list(log), env, sorted(written)


def overlaps(k0, k1):
    """Concrete index tuples (ints / slices) of the same array: do they share an element?"""
    for a, b in zip(k0, k1):
        if isinstance(a, slice) or isinstance(b, slice):
            continue          # a full slice overlaps everything along this axis
        if int(a) != int(b):
            return False
    return True


def conflicts(log):
    """Pairs (write of iteration A, access of iteration B != A) touching a common element."""
    out = []
    for ia, opa, na, ka in log:
        if opa != "W":
            continue
        for ib, opb, nb, kb in log:
            if ib == ia or nb != na:
                continue
            if overlaps(ka, kb):
                out.append(((ia, opa, na, ka), (ib, opb, nb, kb)))
    return out
