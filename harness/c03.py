"""C03 (thin maps) and, through harness/c11.py, C11 (thick maps).

Compositional decomposition, every part on the real code:

 (A) "wiring": the real osyris.map(..., plot=False) with symbolic cells (centre, size, value),
     symbolic origin and (thick maps) symbolic depth; the numba kernel is replaced by a
     *recorder* that captures its arguments and returns an array of fresh symbols (with an
     enumerated NaN pattern).  Obligations: (A1) pre-selection soundness -- a cell that strictly
     contains ANY point of the window/slab is handed to the kernel (QF_NRA; the window point is a
     free variable, so this holds for every resolution); (A2) the kernel receives exactly the
     right inputs (cell positions in both bases, half sizes, values, grid edges, spacings,
     pixel sample points = origin + x_i u + y_j v + z_k n); (A3) the result is assembled from
     the kernel output as the property says (pixel centres in the unit of dx, depth reduction,
     sum scaling and units, mask, vector layers).
 (B) "kernel": evaluate_on_grid.py_func (int() = truncation, prange = range) on symbolic
     cells: every pixel/depth sample shows the cell containing its sample point, NaN iff
     strictly inside none.
 (C) two-iteration interference analysis of the kernel's prange loop.
 (D) "layout": end-to-end runs on concrete geometries (incl. omitted window) with symbolic
     values.
In the concrete replay every configuration is checked END TO END against the point-location
oracle on the un-instrumented osyris.map (compiled kernel)."""
import itertools

import numpy as np

from harness import common as C

PROP = "C03"
FILES = ["src/osyris/plot/map.py", "src/osyris/plot/utils.py", "src/osyris/plot/direction.py", "src/osyris/core/vector.py",
         "src/osyris/core/layer.py", "src/osyris/plot/parser.py"]
FUNCTIONS = ["osyris.plot.map.map (plot=False)", "osyris.plot.utils.evaluate_on_grid (py_func; compiled kernel in replays)",
             "osyris.plot.direction.get_direction", "osyris.plot.parser.parse_layer/get_norm", "osyris.core.layer.Layer",
             "Vector.dot/norm/__getitem__, Array arithmetic used by map"]
ASSUMPTIONS = ["cell sizes, cell coordinates and origin within 1e6 window sizes (float constants such as sqrt(3) are modelled at their exact "
               "rational value; at larger ratios their rounding outweighs the slack of the selection radii)",
               "cells are cubes that do not overlap (premise of the property); sample points on a cell face may show any touching cell",
               "the window size is concrete per configuration (a symbolic window makes every kernel coordinate a quotient and z3 answers "
               "unknown); cell size, cell centre, origin and depth are symbolic, so every window/cell ratio and offset is covered",
               "composition: map = pre-selection + projection (A) ; kernel (B) ; assembly (A) -- the kernel is replaced by a recorder in (A) "
               "and called directly in (B); the contract between them is the kernel's argument list, checked term by term in (A2)",
               "numba executes the Python semantics of the prange body per iteration (interference analysis)",
               "plot=True (matplotlib) is outside the claim"]
BOUNDS = {"quick": {"wiring": "1-2 symbolic cells, grids 1x1 / 2x1 / 1x2 / 2x2, window 1.0 (cm or au) and 0.37, directions x y z zyx + 2-D mesh, "
                              "scalar and vector layers, NaN patterns none/one/all",
                    "kernel": "1-2 symbolic cells, grids up to 2x2x2, spacing 0.5 / 1.0, identity and permuted bases, 2-D and 3-D",
                    "layout": "3 concrete meshes x 4 origins, window given / omitted", "interference": "2 iterations of the prange body"},
          "thorough": {"as": "quick plus rotated basis (2,3,6)/7 in the kernel, direction Vector(2,3,6) in the wiring, 3 cells in the kernel"}}
FLOOR = {"quick": 1500, "thorough": 4000}
SHADOW_EVERY = 5
LIMITS = {"quick": {"max_paths": 4000, "budget_s": 400}, "thorough": {"max_paths": 40000, "budget_s": 2400}}
TOL = 1e-9

BIG = 1.0e6

AXES = {"x": ((1, 0, 0), (0, 1, 0), (0, 0, 1)), "y": ((0, 1, 0), (0, 0, 1), (1, 0, 0)), "z": ((0, 0, 1), (1, 0, 0), (0, 1, 0)),
        "zyx": ((0, 0, 1), (0, 1, 0), (1, 0, 0)), "2d": ((0, 0, 1), (1, 0, 0), (0, 1, 0)),
        "v236": ((2 / 7, 3 / 7, 6 / 7), None, None)}

STUBS = ["osyris.plot.utils.prange -> range (kernel configurations)",
         "osyris.plot.map.evaluate_on_grid -> recorder returning fresh symbols (wiring configurations, symbolic mode only)",
         "numpy.ma.masked_where -> symx.arr.SymMasked for symbolic data"]


def EXTRA_STUBS():
    from symx import core
    # (helper functions compiled with numba and called from the kernel's Python source run as Python too)
    return {"osyris.plot.utils": dict(C.njit_helpers_as_python("osyris.plot.utils", skip=("evaluate_on_grid", "hist2d")),
                                      prange=core.sym_range)}


def configs(tier, thick=False):
    out = _configs(tier, thick)
    seen = set()
    for c in out:
        c["tier"] = tier
        if c["kind"] == "wiring":
            k = (c["d"], c["win"], c["unit"], c.get("dzrange"), c["ncell"], c["origin"], c["layer"] == "vector", c.get("dyf"))
            c["sel"] = (k not in seen) and (c["nx"], c["ny"]) == (1, 1) or (c["ncell"] == 2 and k not in seen) or not c["origin"]
            if c["sel"]:
                seen.add(k)
    return out


def _configs(tier, thick=False):
    out = []
    ops = ["sum"] if not thick else ["sum", "nansum", "mean", "nanmean", "min", "max", "nanmin", "nanmax"]
    for d in ("z", "x", "y", "zyx", "2d"):
        for (nx, ny) in [(1, 1), (2, 1), (1, 2), (2, 2)] + ([(3, 2), (2, 3)] if tier != "quick" else []):
            for ncell in (1, 2):
                if ncell == 2 and (nx, ny) != (1, 1) and not (tier != "quick" and (nx, ny) == (2, 1)):
                    continue
                if thick and d == "2d":
                    continue
                for win, unit in ([(1.0, "cm"), (0.37, "cm"), (1.0, "au")] if (d == "z" and ((nx, ny) == (1, 1) or tier != "quick"))
                                  else [(1.0, "cm")]):
                    for nanpat in (("none", "one") if (nx, ny) != (2, 2) else ("one",)):
                        for op in (ops if (d == "z" and (nx, ny) == (2, 1) and win == 1.0 and unit == "cm") else ops[:1]):
                            if ncell == 2 and (nanpat != "none" or (win, unit) != (1.0, "cm") or d not in ("z", "x", "2d")):
                                continue
                            c = dict(kind="wiring", d=d, nx=nx, ny=ny, ncell=ncell, win=win, unit=unit, origin=True, layer="scalar",
                                     nanpat=nanpat, thick=thick, op=op)
                            if ncell == 2:
                                c["_split"] = 3
                            if thick:
                                for nz in ((None, 2, 3) if (d, nx, ny) == ("z", 1, 1) else (None,)):
                                    for dzr in ("le", "ge"):
                                        out.append(dict(c, nz=nz, dzrange=dzr))
                            else:
                                out.append(c)
    for d in ("z", "y", "2d"):
        if thick and d == "2d":
            continue
        out.append(dict(kind="wiring", d=d, nx=1, ny=2, ncell=1, win=1.0, unit="cm", origin=True, layer="vector", nanpat="one",
                        thick=thick, op="sum", nz=None))
    out.append(dict(kind="wiring", d="z", nx=2, ny=1, ncell=1, win=1.0, unit="cm", origin=False, layer="scalar", nanpat="all",
                    thick=thick, op="sum", nz=None))
    # windows that are not square: dy given explicitly (narrow and tall)
    for dyf in (0.4, 2.5):
        for d in ("z", "zyx"):
            for (nx, ny) in ((1, 1), (2, 2)):
                c = dict(kind="wiring", d=d, nx=nx, ny=ny, ncell=1, win=1.0, unit="cm", origin=True, layer="scalar", nanpat="none",
                         thick=thick, op="sum", nz=None, dyf=dyf)
                if thick:
                    for dzr in ("le", "ge"):
                        out.append(dict(c, dzrange=dzr))
                else:
                    out.append(c)
    # the call under check is the SECOND of two calls sharing the same argument objects (layer, origin, resolution dict); the
    # first one asks for another window depth / size: nothing may be carried over from it
    for op in ((("sum", "mean") if tier != "quick" else ("sum",)) if thick else ("sum",)):
        for dzr in ((("le", "ge") if tier != "quick" else ("le",)) if thick else (None,)):
            out.append(dict(kind="wiring", d="z", nx=2, ny=1, ncell=1, win=1.0, unit="cm", origin=True, layer="scalar", nanpat="none",
                            thick=thick, op=op, nz=None, dzrange=dzr, warm=True))
    # ... and the very same call twice, with the window given in another unit than the positions
    out.append(dict(kind="wiring", d="z", nx=2, ny=1, ncell=1, win=1.0, unit="au", origin=True, layer="scalar", nanpat="none",
                    thick=thick, op="sum", nz=None, dzrange=("le" if thick else None), warm="same"))
    # the layer's unit contains a length unit that is not the positions' unit (g/m**3, km/s over positions in cm): the depth
    # step is a length in the positions' unit and the factor between the two must not be lost
    if thick:
        for ru in ("g/m**3", "km/s"):
            for op in ("sum", "nansum", "mean"):
                out.append(dict(kind="wiring", d="z", nx=2, ny=1, ncell=1, win=1.0, unit="cm", origin=True, layer="scalar", nanpat="none",
                                thick=True, op=op, nz=None, dzrange="le", rho_unit=ru))
    if tier != "quick" and not thick:
        out.append(dict(kind="wiring", d="v236", nx=1, ny=1, ncell=1, win=1.0, unit="cm", origin=True, layer="scalar", nanpat="none",
                        thick=False, op="sum"))
    # kernel
    bases = ["id", "perm"] + (["rot"] if tier != "quick" else [])
    for basis in bases:
        for ndim in (3, 2):
            if ndim == 2 and basis != "id":
                continue
            grids = [(1, 1, 1), (2, 1, 1), (1, 2, 1), (2, 2, 1)] if not thick else [(1, 1, 2), (2, 1, 2), (1, 1, 3)]
            for (nx, ny, nz) in grids:
                for ncell in (1, 2):
                    if ncell == 2 and nx * ny * nz > 2:
                        continue
                    if ndim == 2 and nz > 1:
                        continue
                    if basis == "rot" and ncell == 2 and nx * ny * nz > 1:
                        continue            # ~600 NRA paths in one unsplittable branch (13 min): one cell x 2 pixels and 2 cells x 1 pixel stay
                    for sp in ((0.5, 1.0) if (nx, ny, nz) in ((2, 1, 1), (1, 1, 2)) else (1.0,)):
                        out.append(dict(kind="kernel", basis=basis, ndim=ndim, nx=nx, ny=ny, nz=nz, ncell=ncell, sp=sp,
                                        _split=((4 if nx * ny * nz * ncell >= 4 else 2) + (2 if basis == "rot" else 0))))
    # different pixel sizes along x, y and the depth (non-square windows / resolutions, depth step != pixel size)
    for (nx, ny, nz) in ([(1, 2, 1), (2, 1, 1)] if not thick else [(1, 1, 2), (1, 2, 2), (1, 1, 3)]):
        for spacing in ([1.0, 0.5, 0.25], [0.25, 1.0, 0.5]):
            out.append(dict(kind="kernel", basis="id", ndim=3, nx=nx, ny=ny, nz=nz, ncell=1, sp=1.0, spacing=spacing,
                            _split=(4 if nx * ny * nz >= 4 else 2)))
    if not thick:
        for li in range(3):
            for oi in range(4):
                for win in (1.0, None, 0.3):
                    out.append(dict(kind="layout", layout=li, org=oi, win=win, d="z" if li != 2 else "2d", nx=3, ny=2))
        out.append(dict(kind="interference", _noshadow=True))
    else:
        for li in range(2):
            for oi in range(2):
                for op in ("sum", "mean", "nanmax"):
                    out.append(dict(kind="layout", layout=li, org=oi, win=1.0, d="z", nx=2, ny=2, thick=True, dz=0.8, op=op))
    return out


# ----------------------------------------------------------------------------- oracle helpers


def inside(m, P, C_, S_, n, ndim, strict, margin=None):
    """margin: the point must be inside by at least this much on every axis (symbolic mode: a term built on the
    tolerance placeholder, so that the counterexample asked of the solver lies well inside the cell and a finer
    pixel grid in the replay is bound to hit the wrongly dropped region)."""
    fs = []
    for k in range(ndim):
        d = P[k] - C_[k][n]
        h = S_[n] * 0.5
        if margin is not None:
            h = h - margin
        sc = m.abs(P[k]) + m.abs(C_[k][n]) + h
        if strict:
            fs.append(m.And(m.lt_b(d, h, sc), m.gt_b(d, -h, sc)))
        else:
            fs.append(m.And(m.le_b(d, h, sc), m.ge_b(d, -h, sc)))
    return m.And(fs)


def basis_of(m, d, ndim):
    if d == "v236":
        # u, v as osyris builds them for a normal given as a Vector (C18 proves that construction orthonormal)
        from osyris import Vector
        from osyris.plot.direction import get_direction
        b = get_direction(Vector(2.0, 3.0, 6.0))
        f = lambda v: tuple(float(x) for x in (v.x.values, v.y.values, v.z.values))
        return f(b.n), f(b.u), f(b.v)
    return AXES[d]


def _cells(m, ncell, ndim, rho_unit="g/cm**3"):
    from osyris import Array, Vector, Datagroup
    cen = [m.array("c" + k, (ncell,), "float64") for k in "xyz"[:ndim]]
    size = m.array("s", (ncell,), "float64")
    for t in m.vals(size):
        m.assume(m.gt(t, 0))
    rho = m.array("rho", (ncell,), "float64")
    m.distinct(rho)
    vel = [m.array("w" + k, (ncell,), "float64") for k in "xyz"[:ndim]]
    dg = Datagroup()
    dg["position"] = Vector(*cen, unit="cm")
    dg["dx"] = Array(size, unit="cm")
    dg["density"] = Array(rho, unit=rho_unit)
    dg["velocity"] = Vector(*vel, unit="cm/s")
    C_ = [[m.t(t) for t in m.vals(c)] for c in cen]
    S_ = [m.t(t) for t in m.vals(size)]
    if ncell == 2:
        m.assume(m.Or([m.ge(m.abs(C_[k][0] - C_[k][1]), (S_[0] + S_[1]) * 0.5) for k in range(ndim)]))
    # magnitudes within 1e6 window sizes: beyond that the rounding of the float constant sqrt(ndim) used by
    # osyris (modelled exactly, as the rational 1.7320508075688772) outweighs the slack of its selection radii
    for t in S_ + [x for row in C_ for x in row]:
        m.assume(m.And(m.le(t, BIG), m.ge(t, -BIG)))
    return dg, C_, S_, [m.t(t) for t in m.vals(rho)], [[m.t(t) for t in m.vals(w)] for w in vel]


class single_thread:
    def __init__(self, m):
        self.on = not m.symbolic

    def __enter__(self):
        if self.on:
            import numba
            self.nt = numba.get_num_threads()
            numba.set_num_threads(1)

    def __exit__(self, *a):
        if self.on:
            import numba
            numba.set_num_threads(self.nt)
        return False


REDUCE = {"sum": "sum", "nansum": "nansum", "mean": "mean", "nanmean": "nanmean", "min": "min", "max": "max", "nanmin": "nanmin",
          "nanmax": "nanmax"}


def reduce_col(m, op, col, zstep=None):
    """Oracle reduction of a depth column (list of terms / None for missing)."""
    nan = [c is None for c in col]
    skip = op.startswith("nan")
    vals = [c for c in col if c is not None]
    if op == "nansum" and not vals:
        return m.t(0.0)                 # the sum of no values
    if (not skip and any(nan)) or not vals:
        return None
    base = op[3:] if skip else op
    if base == "sum":
        r = vals[0]
        for v in vals[1:]:
            r = r + v
        return r * zstep if zstep is not None else r
    if base == "mean":
        r = vals[0]
        for v in vals[1:]:
            r = r + v
        return r / len(vals)
    r = vals[0]
    for v in vals[1:]:
        c = (v < r) if base == "min" else (v > r)
        r = _ite(m, c, v, r)
    return r


def _ite(m, c, a, b):
    if m.symbolic:
        import z3
        return z3.If(c, a, b)
    return a if c else b


# ----------------------------------------------------------------------------- body


def body(m, cfg):
    kind = cfg["kind"]
    if kind == "interference":
        return _interference(m, cfg)
    if kind == "kernel":
        return _kernel(m, cfg)
    if kind == "layout":
        return _layout(m, cfg)
    return _wiring(m, cfg)


def _map_args(m, cfg, ndim, dg, O_in=None):
    import osyris
    from osyris import Vector
    ureg = osyris.units._ureg
    kw = dict(plot=False, resolution={"x": cfg["nx"], "y": cfg["ny"]})
    if cfg.get("win") is not None:
        kw["dx"] = ureg.Quantity(cfg["win"], cfg.get("unit", "cm"))
        if cfg.get("dyf"):
            kw["dy"] = ureg.Quantity(cfg["win"] * cfg["dyf"], cfg.get("unit", "cm"))
    if O_in is not None:
        kw["origin"] = Vector(*O_in, unit="cm")
    if cfg["d"] != "2d":
        kw["direction"] = cfg["d"] if cfg["d"] != "v236" else Vector(2.0, 3.0, 6.0)
    return kw


def _wiring(m, cfg):
    import osyris
    _WARM_SAME[0] = (cfg.get("warm") == "same")
    from osyris import Vector
    from symx import install, core
    from symx.arr import sarray, raw
    d, nx, ny, ncell, win, layer, thick = cfg["d"], cfg["nx"], cfg["ny"], cfg["ncell"], cfg["win"], cfg["layer"], cfg.get("thick")
    op = cfg.get("op", "sum")
    ndim = 2 if d == "2d" else 3
    tag = f"{'thick' if thick else 'thin'}:{d}:{nx}x{ny}:c{ncell}:{layer}" + (f":{op}" if thick else "") + (":second-call" if cfg.get("warm") else "") + \
          (f":dy={cfg['dyf']}dx" if cfg.get("dyf") else "") + (f":layer-unit={cfg['rho_unit']}" if cfg.get("rho_unit") else "")
    dg, C_, S_, RHO, W_ = _cells(m, ncell, ndim, cfg.get("rho_unit", "g/cm**3"))
    o = [m.real("o" + k, lo=-BIG, hi=BIG) for k in "xyz"[:ndim]] if cfg["origin"] else None
    O = [m.t(x) for x in o] if o else [m.t(0.0)] * ndim
    kw = _map_args(m, cfg, ndim, dg, o)
    fu = C.fd(cfg["unit"])[0]
    Wcm = win * fu
    Wy = Wcm * cfg.get("dyf", 1.0)          # window height (dy given explicitly when the configuration has a factor dyf)
    ureg = osyris.units._ureg
    DZ = None
    if thick:
        dzv = m.real("dz")
        # the depth ranges from one pixel to 3 window sizes, in two configurations so that max(dx, dy, dz) is resolved
        if cfg.get("dzrange", "le") == "le":
            m.assume(m.And(m.ge(dzv, Wcm / max(nx, ny)), m.le(dzv, Wcm)))
        else:
            m.assume(m.And(m.ge(dzv, Wcm), m.le(dzv, 3.0 * Wcm)))
        kw["dz"] = ureg.Quantity(dzv, "cm")
        kw["operation"] = op
        if cfg.get("nz"):
            kw["resolution"]["z"] = cfg["nz"]
        DZ = m.t(dzv)
    res_in = dict(kw["resolution"])
    lay = dg.layer("velocity", mode="vec") if layer == "vector" else dg.layer("density")
    nvec, uvec, vvec = basis_of(m, d, ndim)
    # free point of the window / slab (a harness input, not given to osyris)
    wx = m.real("win_x", lo=-0.5 * Wcm, hi=0.5 * Wcm)
    wy = m.real("win_y", lo=-0.5 * Wy, hi=0.5 * Wy)
    wz = m.real("win_z") if thick else None
    if thick:
        m.assume(m.And(m.ge(m.t(wz), -0.5 * DZ), m.le(m.t(wz), 0.5 * DZ)))

    def point(x, y, z=0.0):
        return [O[k] + x * uvec[k] + y * vvec[k] + (z * nvec[k] if ndim == 3 else 0.0) for k in range(ndim)]
    Pfree = point(m.t(wx), m.t(wy), m.t(wz) if thick else 0.0)
    if not m.symbolic:
        return _end_to_end(m, cfg, tag, dg, lay, kw, C_, S_, RHO, W_, O, Wcm, fu, point, ndim, (nvec, uvec, vvec), Pfree)
    # ------------------------------------------------------------------ symbolic: recorder in place of the kernel
    M = install.mod("osyris.plot.map")
    rec = {}
    nlay = 3 if layer == "vector" else 1

    def recorder(**kwargs):
        rec.update(kwargs)
        g = kwargs["grid_positions_in_original_basis"]
        nz_, ny_, nx_ = g.shape[:3]
        rec["shape"] = (nz_, ny_, nx_)
        F = np.empty((nlay, nz_, ny_, nx_), dtype=object)
        for idx in np.ndindex(*F.shape):
            F[idx] = core.R("F_%d_%d_%d_%d" % idx)
        if cfg["nanpat"] == "one":
            F[:, 0, 0, 0] = float("nan")
        elif cfg["nanpat"] == "all":
            F[...] = float("nan")
        rec["F"] = F
        from symx.arr import SymArray
        return SymArray(F.copy(), "float64")       # object storage even when every entry is a concrete NaN

    real_kernel = M.evaluate_on_grid
    M.evaluate_on_grid = recorder
    try:
        if cfg.get("warm"):
            try:
                osyris.map(lay, **_warm_kw(kw, thick))
            except RuntimeError as e:
                if "No cells were selected" not in str(e):
                    raise
            rec.clear()
        try:
            p = osyris.map(lay, **kw)
        except RuntimeError as e:
            if "No cells were selected" not in str(e):
                raise
            p = None
    finally:
        M.evaluate_on_grid = real_kernel
    # ---- A1: pre-selection soundness
    if p is None:
        handed = []
    else:
        cv = np.asarray(raw(rec["cell_values"]), dtype=object)
        probe = RHO if layer != "vector" else None
        handed = []
        ncols = cv.shape[1]
        cols = []
        for q in range(ncols):
            if layer == "vector":
                # identify the cell by its half size entry (distinct symbols are the densities; use position terms)
                hit = [n for n in range(ncell) if C.same_terms(m, [m.t(raw(rec["cell_sizes"]).ravel()[q]) * Wcm], [S_[n] * 0.5])
                       or m.entailed(m.eq(m.t(raw(rec["cell_sizes"]).ravel()[q]) * Wcm, S_[n] * 0.5))]
            else:
                hit = [n for n in range(ncell) if C.same_terms(m, [m.t(cv[0][q])], [RHO[n]])]
            cols.append(hit[0] if len(hit) >= 1 else None)
        if not m.require(None not in cols and len(set(cols)) == len(cols), "the kernel is handed distinct loaded cells", key=f"args-cells:{tag}"):
            return
        handed = cols
    dropped = [n for n in range(ncell) if n not in handed]
    if not cfg.get("sel", True):
        # the selection criterion does not depend on the resolution, the reduction or the kernel output: it is proved
        # (for an arbitrary point of the window) on the 1x1 configurations of each direction / window / depth range
        dropped = []
    if ncell == 2:
        # the selection criterion is proved on the one-cell configurations (it is applied per cell); the two-cell
        # configurations check the kernel arguments and the assembly (on the two-cell instance z3 answers `unknown`
        # now and then -- NRA near its time limit -- so it is not attempted there)
        dropped = []
    for n in dropped:
        # "strictly" = by more than 1e-4 window sizes (the tolerance placeholder is 1e-9 in the proof and 1e-6 in the
        # search for a replayable counterexample, i.e. a margin of 0.1 window sizes there)
        m.check("a cell strictly containing a point of the window is handed to the kernel (pre-selection is sound)",
                m.Not(inside(m, Pfree, C_, S_, n, ndim, True, margin=m.tol_term() * (1.0e5 * Wcm))), key=f"selection:{tag}",
                timeout_ms=(90000 if ncell == 1 else 240000),
                drop=core.mentions_to_int)     # the selection precedes the rounding of the depth resolution
    if not dropped:
        m.ok("all cells handed to the kernel (or judged per cell)")
    if p is None:
        return
    # ---- A2: kernel arguments
    div = Wcm
    nz_, ny_, nx_ = rec["shape"]
    if not m.require((ny_, nx_) == (ny, nx), "grid has the requested resolution", key=f"args-grid-shape:{tag}"):
        return
    xs = [-0.5 * Wcm + Wcm * ((i + 0.5) / nx) for i in range(nx)]
    ys = [-0.5 * Wy + Wy * ((j + 0.5) / ny) for j in range(ny)]
    # counterexamples of the cut-point obligations are replayed END TO END: among the violating inputs prefer those where the
    # cells are small, well inside the window and off-centre by a different positive amount along u and v (so that a
    # mirrored / swapped / shifted image differs at the pixels of the 16x16 replay grid); verdicts do not depend on this
    vis = []
    for n in range(ncell):
        rel_ = [C_[k][n] - O[k] for k in range(ndim)]
        du = sum((uvec[k] * rel_[k] for k in range(ndim)), m.t(0.0))
        dv = sum((vvec[k] * rel_[k] for k in range(ndim)), m.t(0.0))
        a0 = 0.15 - 0.25 * n
        if cfg.get("dyf", 1.0) < 1.0:
            # a narrow window: a cell about as high as the window, so that the pixels near the window's upper and lower edge
            # show it (a search range that is too small along v loses exactly those)
            vis += [m.ge(S_[n], 0.35 * Wcm), m.le(S_[n], 0.45 * Wcm), m.ge(du, a0 * Wcm), m.le(du, (a0 + 0.04) * Wcm),
                    m.ge(dv, 0.0), m.le(dv, 0.05 * Wy)]
        else:
            vis += [m.ge(S_[n], Wcm / 8.0), m.le(S_[n], Wcm / 6.0), m.ge(du, a0 * Wcm), m.le(du, (a0 + 0.04) * Wcm),
                    m.ge(dv, 0.29 * Wy), m.le(dv, 0.33 * Wy)]
        if ndim == 3:
            dn = sum((nvec[k] * rel_[k] for k in range(ndim)), m.t(0.0))
            vis += [m.le(m.abs(dn), S_[n] / 8.0)]
    if thick:
        # number of depth samples: the given one, or the rounding of dz / mean pixel size
        if cfg.get("nz"):
            m.require(nz_ == cfg["nz"], "depth resolution is the requested one", key=f"nz:{tag}")
        else:
            pix = 0.5 * (Wcm / nx + Wy / ny)
            q = DZ / pix
            m.check("number of depth samples is dz / pixel size rounded to the nearest integer",
                    m.And(m.ge(q, nz_ - 0.5), m.le(q, nz_ + 0.5)), key=f"nz:{tag}", prefer=vis)
        zstep = DZ / nz_
        zs = [-0.5 * DZ + zstep * (k + 0.5) for k in range(nz_)]
    else:
        m.require(nz_ == 1, "a thin map has one depth sample", key=f"nz:{tag}")
        zs = [m.t(0.0)]
        zstep = None
    fs = []
    sc = m.abs(Wcm) + sum((m.abs(O[k]) for k in range(ndim)), m.t(0.0)) + sum((m.abs(C_[k][n]) for k in range(ndim) for n in range(ncell)), m.t(0.0))
    def A(name):
        return [m.t(t) for t in m.vals(rec[name])]
    cnx, cny, cnz = A("cell_positions_in_new_basis_x"), A("cell_positions_in_new_basis_y"), A("cell_positions_in_new_basis_z")
    cox = A("cell_positions_in_original_basis_x")
    coy = A("cell_positions_in_original_basis_y") if rec["cell_positions_in_original_basis_y"] is not None else None
    coz = A("cell_positions_in_original_basis_z") if rec["cell_positions_in_original_basis_z"] is not None else None
    hs = A("cell_sizes")
    for q, n in enumerate(handed):
        rel = [C_[k][n] - O[k] for k in range(ndim)]
        dotp = lambda vec: sum((vec[k] * rel[k] for k in range(ndim)), m.t(0.0))
        fs += [m.close(cnx[q] * div, dotp(uvec), scale=sc), m.close(cny[q] * div, dotp(vvec), scale=sc),
               m.close(cnz[q] * div, dotp(nvec) if ndim == 3 else m.t(0.0), scale=sc),
               m.close(cox[q] * div, rel[0], scale=sc), m.close(hs[q] * div, S_[n] * 0.5, scale=sc)]
        if coy is not None:
            fs.append(m.close(coy[q] * div, rel[1], scale=sc))
        if ndim == 3:
            fs.append(m.close(coz[q] * div, rel[2], scale=sc) if coz is not None else m.And(False))
        else:
            m.require(coz is None, "2-D mesh: no z coordinate is handed over", key=f"args-2d:{tag}")
    m.check("the kernel receives the selected cells' positions (both bases) and half sizes in window units", m.And(fs), key=f"args-cells:{tag}", prefer=vis)
    G = np.asarray(raw(rec["grid_positions_in_original_basis"]) if hasattr(rec["grid_positions_in_original_basis"], "_ld")
                   else rec["grid_positions_in_original_basis"], dtype=object)
    fs = []
    for k in range(nz_):
        for j in range(ny):
            for i in range(nx):
                want = [xs[i] * uvec[c] + ys[j] * vvec[c] + zs[k] * nvec[c] for c in range(3)]
                fs += [m.close(m.t(G[k][j][i][c]) * div, want[c], scale=sc) for c in range(3)]
    lo = [m.t(rec["grid_lower_edge_in_new_basis_" + c]) for c in "xyz"]
    spc = [m.t(rec["grid_spacing_in_new_basis_" + c]) for c in "xyz"]
    fs += [m.close(lo[0] * div, -0.5 * Wcm, scale=sc), m.close(lo[1] * div, -0.5 * Wy, scale=sc),
           m.close(spc[0] * div, Wcm / nx, scale=sc), m.close(spc[1] * div, Wy / ny, scale=sc)]
    if thick:
        fs += [m.close(lo[2] * div, -0.5 * DZ, scale=sc + m.abs(DZ)), m.close(spc[2] * div, zstep, scale=sc + m.abs(DZ))]
    else:
        # thin: the single depth sample z = 0 must lie inside the depth bin [lo, lo + spacing)
        fs += [m.le(lo[2], 0), m.gt(lo[2] + spc[2], 0)]
    m.check("the kernel's grid is the pixel sample points origin + x_i u + y_j v (+ z_k n), evenly spaced and covering the window/slab",
            m.And(fs), key=f"args-grid:{tag}", prefer=vis)
    m.require(rec["ndim"] == ndim, "ndim handed over", key=f"args-ndim:{tag}")
    # cell values
    cv = np.asarray(raw(rec["cell_values"]), dtype=object)
    fs = []
    for q, n in enumerate(handed):
        if layer == "vector":
            wu = sum((uvec[k] * W_[k][n] for k in range(ndim)), m.t(0.0))
            wv = sum((vvec[k] * W_[k][n] for k in range(ndim)), m.t(0.0))
            mag = m.t(cv[2][q])
            fs += [m.close(m.t(cv[0][q]), wu), m.close(m.t(cv[1][q]), wv), m.close(mag * mag, wu * wu + wv * wv), m.ge(mag, 0)]
        else:
            fs.append(m.close(m.t(cv[0][q]), RHO[n]))
    m.check("the kernel receives the layer values of the selected cells (vectors projected on u, v and their in-plane magnitude)",
            m.And(fs), key=f"args-values:{tag}", prefer=vis)
    # ---- A3: assembly of the result from the kernel output F
    F = rec["F"]
    px, py = m.vals(p.x), m.vals(p.y)
    if m.require(len(px) == nx and len(py) == ny, "one coordinate per pixel", key=f"centres:{tag}"):
        m.check("returned x, y are the pixel centres in the unit of dx",
                m.And([m.close(m.t(a) * fu, b, scale=Wcm) for a, b in zip(px, xs)] + [m.close(m.t(a) * fu, b, scale=Wcm) for a, b in zip(py, ys)]),
                key=f"centres:{tag}", prefer=vis)
    if not thick:
        m.require(dict(kw["resolution"]) == res_in, "the caller's resolution dict is not modified", key=f"resolution-modified:{tag}")
    data = p.layers[0]["data"]
    D = np.asarray(data.data if not hasattr(data.data, "_ld") else raw(data.data), dtype=object)
    Mk = np.broadcast_to(np.asarray(data.mask, dtype=bool), D.shape)
    want_shape = (ny, nx, 3) if layer == "vector" else (ny, nx)
    if not m.require(D.shape == want_shape, "layer has one entry per pixel", key=f"assembly-shape:{tag}"):
        return
    fs = []
    for j in range(ny):
        for i in range(nx):
            for l in range(nlay):
                col = [None if (isinstance(F[l][k][j][i], float) and F[l][k][j][i] != F[l][k][j][i]) else m.t(F[l][k][j][i])
                       for k in range(nz_)]
                want = reduce_col(m, op, col, zstep if op in ("sum", "nansum") else None) if thick else col[0]
                got_masked = bool(Mk[j][i][l]) if layer == "vector" else bool(Mk[j][i])
                got = D[j][i][l] if layer == "vector" else D[j][i]
                if want is None:
                    m.require(got_masked, "a pixel without a value is masked", key=f"assembly-mask:{tag}")
                else:
                    if m.require(not got_masked, "a pixel with a value is not masked", key=f"assembly-mask:{tag}"):
                        fs.append(m.close(m.t(got), want, scale=sum((m.abs(c) for c in col if c is not None), m.t(0.0))))
    m.check("the result holds, per pixel, the kernel output reduced along the depth" + (" (sum times the depth step)" if thick else ""),
            m.And(fs), key=f"assembly-value:{tag}", prefer=vis)
    unit = str(p.layers[0]["unit"])
    base_unit = "centimeter / second" if layer == "vector" else {"g/cm**3": "gram / centimeter ** 3", "g/m**3": "gram / meter ** 3",
                                                                  "km/s": "kilometer / second"}[cfg.get("rho_unit", "g/cm**3")]
    if thick and op in ("sum", "nansum"):
        want_dim = C.fd(base_unit)[1]
        want_dim = tuple(a + b for a, b in zip(want_dim, (1, 0, 0, 0, 0)))
        m.require(C.unit_dim_ok(p.layers[0]["unit"], want_dim) and abs(C.fd(p.layers[0]["unit"])[0] / C.fd(base_unit)[0] - 1) < 1e-9,
                  "sum over depth: unit is the layer unit times the length unit", key=f"assembly-unit:{tag}", info=unit)
    else:
        m.require(unit == base_unit, "unit unchanged", key=f"assembly-unit:{tag}", info=unit)


_WARM_SAME = [False]


def _warm_kw(kw, thick):
    """Arguments of the first of two calls: the same objects (resolution dict, origin, ...), another depth / window size."""
    k2 = dict(kw)
    if _WARM_SAME[0]:
        return k2                            # the very same arguments twice
    if thick:
        k2["dz"] = kw["dx"] * 2.0           # concrete: two window sizes deep
    else:
        k2["dx"] = kw["dx"] * 3.0
    return k2


def _end_to_end(m, cfg, tag, dg, lay, kw, C_, S_, RHO, W_, O, Wcm, fu, point, ndim, basis, Pfree):
    """Concrete replay: the un-instrumented map against the point-location oracle.  A failure is
    reported under every key of the configuration (wildcard)."""
    bad = []
    for (nx, ny) in [(cfg["nx"], cfg["ny"]), (16, 16)]:
        # the configured grid, and a finer one (a cell wrongly dropped by the pre-selection shows up at the pixels
        # whose sample points fall into it)
        kw2 = dict(kw, resolution=dict(kw["resolution"], x=nx, y=ny))
        if (nx, ny) != (cfg["nx"], cfg["ny"]) and cfg.get("thick") and not cfg.get("nz"):
            kw2["resolution"].pop("z", None)
        bad += _end_to_end_one(m, cfg, nx, ny, lay, kw2, C_, S_, RHO, W_, O, Wcm, fu, point, ndim, basis, Pfree)
        if cfg.get("thick") and cfg.get("op") != "nansum" and cfg["layer"] != "vector":
            # with few cells most depth columns contain missing samples and every non-nan reduction is masked whatever was
            # selected: nansum exposes a cell that was wrongly dropped
            bad += _end_to_end_one(m, dict(cfg, op="nansum"), nx, ny, lay, dict(kw2, operation="nansum"), C_, S_, RHO, W_, O, Wcm, fu,
                                   point, ndim, basis, Pfree)
    if bad:
        m.failed.append("*")
        m.notes = bad[:4]
    else:
        m.passed.append("end-to-end")


def _end_to_end_one(m, cfg, nx, ny, lay, kw, C_, S_, RHO, W_, O, Wcm, fu, point, ndim, basis, Pfree):
    import osyris
    thick, op = cfg.get("thick"), cfg.get("op", "sum")
    ncell = len(S_)
    nvec, uvec, vvec = basis
    bad = []
    if cfg.get("warm"):
        try:
            with single_thread(m):
                osyris.map(lay, **_warm_kw(kw, thick))
        except RuntimeError as e:
            if "No cells were selected" not in str(e):
                raise
    try:
        with single_thread(m):
            p = osyris.map(lay, **kw)
    except RuntimeError as e:
        if "No cells were selected" not in str(e):
            raise
        p = None
    dz = float(kw["dz"].magnitude) if thick else None
    Wy = Wcm * cfg.get("dyf", 1.0)
    xs = [-0.5 * Wcm + Wcm * ((i + 0.5) / nx) for i in range(nx)]
    ys = [-0.5 * Wy + Wy * ((j + 0.5) / ny) for j in range(ny)]
    if p is None:
        # refused as empty: no point of the window/slab may be strictly inside a cell
        if any(inside(m, Pfree, C_, S_, n, ndim, True) for n in range(ncell)):
            bad.append("map refused as empty although a window point lies strictly inside a cell")
    else:
        D = np.asarray(p.layers[0]["data"].data, dtype=float)
        Mk = np.broadcast_to(np.asarray(p.layers[0]["data"].mask, dtype=bool), D.shape)
        if thick:
            nz = cfg.get("nz") or max(int(round(dz / (0.5 * (Wcm / nx + Wy / ny)))), 0)
            zstep = dz / nz if nz else None
            zs = [-0.5 * dz + zstep * (k + 0.5) for k in range(nz)]
        else:
            zs, zstep = [0.0], None
        # the unit: the layer's unit, times the positions' length unit for a sum over depth (compared as physical factor + dimension)
        base_u = "cm/s" if cfg["layer"] == "vector" else cfg.get("rho_unit", "g/cm**3")
        bf, bd = C.fd(base_u)
        if thick and op in ("sum", "nansum"):
            bf, bd = bf * C.fd("cm")[0], tuple(a + b for a, b in zip(bd, (1, 0, 0, 0, 0)))
        gf = C.fd(p.layers[0]["unit"])[0]
        if not C.unit_dim_ok(p.layers[0]["unit"], bd) or abs(gf / bf - 1) > 1e-9:
            bad.append(f"unit {p.layers[0]['unit']} of the {op if thick else 'thin'} map of a layer in {base_u} over positions in cm")
        px, py = m.vals(p.x), m.vals(p.y)
        if len(px) != nx or not all(m.close(a * fu, b, scale=Wcm) for a, b in zip(px, xs)) or \
                len(py) != ny or not all(m.close(a * fu, b, scale=Wcm) for a, b in zip(py, ys)):
            bad.append("pixel centres")
        vec = cfg["layer"] == "vector"
        for j in range(ny):
            for i in range(nx):
                col = []
                ambiguous = False
                for z in zs:
                    P = point(xs[i], ys[j], z)
                    strict = [n for n in range(ncell) if inside(m, P, C_, S_, n, ndim, True)]
                    closed = [n for n in range(ncell) if inside(m, P, C_, S_, n, ndim, False)]
                    if len(strict) == 1:
                        col.append(strict[0])
                    elif not closed:
                        col.append(None)
                    else:
                        ambiguous = True          # on a face: any touching cell (or none) is allowed
                if ambiguous:
                    continue
                if vec:
                    n0 = col[0]
                    if n0 is None:
                        ok = bool(Mk[j][i].all())
                    else:
                        wu = sum(uvec[k] * W_[k][n0] for k in range(ndim))
                        wv = sum(vvec[k] * W_[k][n0] for k in range(ndim))
                        ok = (not Mk[j][i].any()) and m.close(D[j][i][0], wu, scale=1.0) and m.close(D[j][i][1], wv, scale=1.0) and \
                            m.close(D[j][i][2] ** 2, wu * wu + wv * wv, scale=1.0)
                    if not ok:
                        bad.append(f"vector pixel ({i},{j})")
                    continue
                want = reduce_col(m, op, [None if n is None else RHO[n] for n in col], zstep if op in ("sum", "nansum") else None) \
                    if thick else (None if col[0] is None else RHO[col[0]])
                if want is None:
                    if not Mk[j][i]:
                        bad.append(f"pixel ({i},{j}) should be masked, shows {D[j][i]}")
                elif Mk[j][i] or not m.close(D[j][i], want, scale=abs(want)):
                    bad.append(f"pixel ({i},{j}) should show {want}, shows {'masked' if Mk[j][i] else D[j][i]}")
    return bad


# ----------------------------------------------------------------------------- (B) kernel


ROT = {"id": ((1, 0, 0), (0, 1, 0), (0, 0, 1)), "perm": ((0, 1, 0), (0, 0, 1), (1, 0, 0)),
       "rot": ((2 / 7, 3 / 7, 6 / 7), (3 / 7, -6 / 7, 2 / 7), (6 / 7, 2 / 7, -3 / 7))}      # rows: u, v, n (orthonormal, rational)


def _kernel(m, cfg):
    from symx import install, core
    from symx.arr import sarray, NP
    PU = install.mod("osyris.plot.utils")
    basis, ndim, nx, ny, nz, ncell, sp = cfg["basis"], cfg["ndim"], cfg["nx"], cfg["ny"], cfg["nz"], cfg["ncell"], cfg["sp"]
    # pixel sizes per axis (x, y, depth): equal unless the configuration says otherwise
    SP = [float(v) for v in cfg.get("spacing", [sp, sp, sp])]
    tag = f"kernel:{basis}:{ndim}d:{nx}x{ny}x{nz}:c{ncell}" + (":aniso" if "spacing" in cfg else "")
    U, V, N = ROT[basis]
    cen = [m.array("c" + k, (ncell,), "float64") for k in "xyz"[:ndim]]
    hs = m.array("h", (ncell,), "float64")
    H_ = [m.t(t) for t in m.vals(hs)]
    for t in H_:
        m.assume(m.gt(t, 0))
    val = m.array("val", (1, ncell), "float64")
    m.distinct(val)
    VAL = [m.t(t) for t in m.vals(val)]
    Cn = [[m.t(t) for t in m.vals(c)] for c in cen] + ([[m.t(0.0)] * ncell] if ndim == 2 else [])
    if ncell == 2:
        m.assume(m.Or([m.ge(m.abs(Cn[k][0] - Cn[k][1]), H_[0] + H_[1]) for k in range(ndim)]))
    lo = [m.real("lo" + k) for k in "xyz"]
    LO = [m.t(x) for x in lo]
    # magnitudes within 10^6 pixel sizes (as in the wiring configurations): the basis vectors are floats, orthonormal to 1e-16
    # only, so that at ratios of 10^16 new-basis and original-basis coordinates disagree by more than a cell (IEEE, not claimed)
    for t in H_:
        m.assume(m.And(m.ge(t, sp / BIG), m.le(t, sp * BIG)))
    for t in [x for c_ in Cn[:ndim] for x in c_] + LO:
        m.assume(m.And(m.ge(t, -sp * BIG), m.le(t, sp * BIG)))
    if nz == 1:
        m.assume(m.And(m.le(LO[2], 0), m.gt(LO[2] + SP[2], 0)))
    # cell positions in the new basis
    def proj(vec, n):
        return sum((vec[k] * Cn[k][n] for k in range(3)), m.t(0.0))
    newx = [proj(U, n) for n in range(ncell)]
    newy = [proj(V, n) for n in range(ncell)]
    newz = [proj(N, n) for n in range(ncell)]
    # pixel sample points
    def centre(axis, idx):
        return LO[axis] + SP[axis] * (idx + 0.5)
    zc = [centre(2, k) for k in range(nz)] if nz > 1 else [m.t(0.0)]
    grid = np.empty((nz, ny, nx, 3), dtype=object)
    P = {}
    for k in range(nz):
        for j in range(ny):
            for i in range(nx):
                pt = [centre(0, i) * U[c] + centre(1, j) * V[c] + zc[k] * N[c] for c in range(3)]
                P[(k, j, i)] = pt
                for c in range(3):
                    grid[k, j, i, c] = pt[c]

    def arr(ts):
        if m.symbolic:
            return sarray([core.SReal(t) if not isinstance(t, (int, float)) else float(t) for t in ts], "float64")
        return np.array([float(t) for t in ts], dtype=float)
    if m.symbolic:
        G = sarray([[[[core.SReal(grid[k, j, i, c]) if not isinstance(grid[k, j, i, c], (int, float)) else float(grid[k, j, i, c])
                       for c in range(3)] for i in range(nx)] for j in range(ny)] for k in range(nz)], "float64")
    else:
        G = np.array(grid.tolist(), dtype=float)
    args = (arr(newx), arr(newy), arr(newz), cen[0], cen[1], cen[2] if ndim == 3 else None, val, hs,
            lo[0], lo[1], lo[2], SP[0], SP[1], SP[2], G, ndim)
    if m.symbolic:
        core_stubs = install.mod("osyris.plot.utils")
        out = PU.evaluate_on_grid.py_func(*args)
    else:
        a = [np.asarray(x, dtype=float) if isinstance(x, np.ndarray) else x for x in args]
        a = [float(x) if isinstance(x, (int, float, np.floating)) and not isinstance(x, bool) and idx not in (15,) else x for idx, x in enumerate(a)]
        with single_thread(m):
            out = PU.evaluate_on_grid(*a)
    O_ = np.asarray(out, dtype=object)
    if not m.require(O_.shape == (1, nz, ny, nx), "kernel output shape", key=f"kernel-shape:{tag}"):
        return
    fs = []
    for (k, j, i), pt in P.items():
        v = O_[0][k][j][i]
        isnan = (not core.is_sym(v)) and (v != v)

        def ins(n, strict):
            f = []
            for c in range(ndim):
                dlt = pt[c] - Cn[c][n]
                scl = m.abs(pt[c]) + m.abs(Cn[c][n]) + H_[n]
                f.append(m.And(m.lt_b(dlt, H_[n], scl), m.gt_b(dlt, -H_[n], scl)) if strict else
                         m.And(m.le_b(dlt, H_[n], scl), m.ge_b(dlt, -H_[n], scl)))
            return m.And(f)
        if isnan:
            fs.append(m.And([m.Not(ins(n, True)) for n in range(ncell)]))
        else:
            hit = [n for n in range(ncell) if C.same_terms(m, [m.t(v)], [VAL[n]])]
            if not m.require(len(hit) == 1, "a pixel holds the value of one of the cells", key=f"kernel-foreign:{tag}"):
                return
            fs.append(m.And([ins(hit[0], False)] + [m.Not(ins(n, True)) for n in range(ncell) if n != hit[0]]))
    m.check("every sample shows the cell containing it; NaN iff strictly inside no cell", m.And(fs), key=f"kernel-pixel:{tag}")


# ----------------------------------------------------------------------------- (D) concrete layouts


MESHES = [
    # 8 cells of size 1 tiling [-1,1]^3
    [((x, y, z), 1.0) for x in (-0.5, 0.5) for y in (-0.5, 0.5) for z in (-0.5, 0.5)],
    # AMR: 7 coarse cells of size 1 + 8 fine cells of size 0.5 in the (+,+,+) octant
    [((x, y, z), 1.0) for x in (-0.5, 0.5) for y in (-0.5, 0.5) for z in (-0.5, 0.5) if (x, y, z) != (0.5, 0.5, 0.5)] +
    [((0.25 + a, 0.25 + b, 0.25 + c), 0.5) for a in (0, 0.5) for b in (0, 0.5) for c in (0, 0.5)],
    # 2-D: 4 cells with a hole
    [((-0.5, -0.5), 1.0), ((0.5, -0.5), 1.0), ((-0.5, 0.5), 1.0)],
]
ORIGINS = [(0.0, 0.0, 0.0), (0.3, 0.3, 0.3), (0.6, 0.55, 0.7), (-0.9, 0.2, 0.45)]


def _layout(m, cfg):
    from osyris import Array, Vector, Datagroup
    mesh = MESHES[cfg["layout"]]
    ndim = len(mesh[0][0])
    ncell = len(mesh)
    org = ORIGINS[cfg["org"]][:ndim]
    tag = f"layout{cfg['layout']}:o{cfg['org']}:{'auto' if cfg['win'] is None else cfg['win']}" + (":thick:" + cfg.get("op", "") if cfg.get("thick") else "")
    rho = m.array("rho", (ncell,), "float64")
    m.distinct(rho)
    dg = Datagroup()
    dg["position"] = Vector(*[np.array([c[0][k] for c in mesh]) for k in range(ndim)], unit="cm")
    dg["dx"] = Array(np.array([c[1] for c in mesh]), unit="cm")
    dg["density"] = Array(rho, unit="g/cm**3")
    C_ = [[float(c[0][k]) for c in mesh] for k in range(ndim)]
    S_ = [float(c[1]) for c in mesh]
    RHO = [m.t(t) for t in m.vals(rho)]
    cfg2 = dict(cfg, unit="cm", layer="scalar")
    kw = _map_args(m, cfg2, ndim, dg, list(org))
    import osyris
    if cfg.get("thick"):
        kw["dz"] = osyris.units._ureg.Quantity(cfg["dz"], "cm")
        kw["operation"] = cfg["op"]
    nx, ny = cfg["nx"], cfg["ny"]
    nvec, uvec, vvec = AXES[cfg["d"]]
    from symx import install
    Mm = install.mod("osyris.plot.map")
    PUm = install.mod("osyris.plot.utils")
    compiled = Mm.evaluate_on_grid
    if m.symbolic:
        Mm.evaluate_on_grid = PUm.evaluate_on_grid.py_func        # symbolic values: the kernel's Python source
    try:
        with single_thread(m):
            p = osyris.map(dg.layer("density"), **kw)
    finally:
        Mm.evaluate_on_grid = compiled
    if cfg["win"] is None:
        # window omitted: the extent of the cells cut by the plane, in the plane's coordinates
        cut = [n for n in range(ncell) if ndim == 2 or abs(C_[2][n] - org[2]) <= S_[n] * 0.5 + 1e-12]
        us = [sum(uvec[k] * (C_[k][n] - org[k]) for k in range(ndim)) for n in cut]
        vs = [sum(vvec[k] * (C_[k][n] - org[k]) for k in range(ndim)) for n in cut]
        # osyris pre-selects with the half diagonal: cells near the plane widen the extent; accept the extent of the cells osyris used
        px = [float(v) for v in np.asarray(p.x, dtype=float)]
        py = [float(v) for v in np.asarray(p.y, dtype=float)]
        dxp = (px[1] - px[0]) if nx > 1 else None
        xlo, xhi = px[0] - 0.5 * dxp, px[-1] + 0.5 * dxp
        dyp = (py[1] - py[0]) if ny > 1 else None
        ylo, yhi = py[0] - 0.5 * dyp, py[-1] + 0.5 * dyp
        ok = xlo <= min(u - S_[n] * 0.5 for u, n in zip(us, cut)) + 1e-9 and xhi >= max(u + S_[n] * 0.5 for u, n in zip(us, cut)) - 1e-9 and \
            ylo <= min(v - S_[n] * 0.5 for v, n in zip(vs, cut)) + 1e-9 and yhi >= max(v + S_[n] * 0.5 for v, n in zip(vs, cut)) - 1e-9
        m.require(ok, "omitted window: the map spans all the cells cut by the plane", key=f"auto-window:{tag}")
        xs, ys = px, py
    else:
        W = cfg["win"]
        xs = [-0.5 * W + W * ((i + 0.5) / nx) for i in range(nx)]
        ys = [-0.5 * W + W * ((j + 0.5) / ny) for j in range(ny)]
        m.check("pixel centres", m.And([m.close(a, b, scale=W) for a, b in zip(m.vals(p.x), xs)] +
                                       [m.close(a, b, scale=W) for a, b in zip(m.vals(p.y), ys)]), key=f"centres:{tag}")
    data = p.layers[0]["data"]
    from symx.arr import raw
    D = np.asarray(data.data if not hasattr(data.data, "_ld") else raw(data.data), dtype=object)
    Mk = np.broadcast_to(np.asarray(data.mask, dtype=bool), D.shape)
    if cfg.get("thick"):
        dz = cfg["dz"]
        nz = max(int(round(dz / (0.5 * (cfg["win"] / nx + cfg["win"] / ny)))), 1)
        zstep = dz / nz
        zs = [-0.5 * dz + zstep * (k + 0.5) for k in range(nz)]
    else:
        zs, zstep = [0.0], None
    fs = []
    for j in range(ny):
        for i in range(nx):
            col, amb = [], False
            for z in zs:
                P = [org[k] + xs[i] * uvec[k] + ys[j] * vvec[k] + (z * nvec[k] if ndim == 3 else 0.0) for k in range(ndim)]
                strict = [n for n in range(ncell) if all(abs(P[k] - C_[k][n]) < S_[n] * 0.5 - 1e-9 for k in range(ndim))]
                closed = [n for n in range(ncell) if all(abs(P[k] - C_[k][n]) <= S_[n] * 0.5 + 1e-9 for k in range(ndim))]
                if len(strict) == 1:
                    col.append(RHO[strict[0]])
                elif not closed:
                    col.append(None)
                else:
                    amb = True
            if amb:
                continue
            op = cfg.get("op", "sum")
            want = reduce_col(m, op, col, zstep if op in ("sum", "nansum") else None) if cfg.get("thick") else col[0]
            if want is None:
                m.require(bool(Mk[j][i]), "pixel in no cell is masked", key=f"pixel:{tag}")
            elif m.require(not Mk[j][i], "pixel inside a cell is not masked", key=f"pixel:{tag}"):
                fs.append(m.close(m.t(D[j][i]), want, scale=sum((m.abs(c) for c in col if c is not None), m.t(0.0))))
    m.check("pixels show the cell containing their sample point", m.And(fs), key=f"pixel:{tag}")


# ----------------------------------------------------------------------------- (C) interference


def _interference(m, cfg):
    """Two cells (= two iterations of the prange loop) writing the same pixel: only possible if both
    contain the pixel's sample point, which for non-overlapping cubes puts it on a face of both."""
    from symx import install, interfere, core
    from symx.arr import NP, sarray
    PU = install.mod("osyris.plot.utils")
    if not m.symbolic:
        m.ok("interference analysis has no concrete replay of its own")
        return
    R = m.real
    cx, cy, cz = m.array("cx", (2,), "float64"), m.array("cy", (2,), "float64"), m.array("cz", (2,), "float64")
    hs = m.array("h", (2,), "float64")
    H_ = [m.t(t) for t in m.vals(hs)]
    for t in H_:
        m.assume(m.gt(t, 0))
    vals = m.array("v", (1, 2), "float64")
    Cn = [[m.t(t) for t in m.vals(c)] for c in (cx, cy, cz)]
    m.assume(m.Or([m.ge(m.abs(Cn[k][0] - Cn[k][1]), H_[0] + H_[1]) for k in range(3)]))       # non-overlapping (h = half size)
    gx, gy, gz = R("gx"), R("gy"), R("gz")
    grid = sarray([[[[gx, gy, gz]]]], "float64")
    args = (cx, cy, cz, cx, cy, cz, vals, hs, R("ex"), R("ey"), R("ez"), 1.0, 1.0, 1.0, grid, 3)
    r = interfere.run_two_iterations(PU.evaluate_on_grid.py_func, args,
                                     dict(np=NP, int=core.IntLike, prange=range, range=core.sym_range, max=core.sym_max, min=core.sym_min))
    if r is None:
        m.ok("the kernel has no parallel loop")
        return
    log, env, written = r
    conf = [c for c in interfere.conflicts(log) if c[0][2] == "out"]
    if not conf:
        m.ok("no pixel is written by both iterations on this path")
        return
    G = [m.t(gx), m.t(gy), m.t(gz)]
    strict = [m.And([m.And(G[k] - Cn[k][n] < H_[n], G[k] - Cn[k][n] > -H_[n]) for k in range(3)]) for n in range(2)]
    m.check("two cells write the same pixel only if its sample point is strictly inside neither (a shared face)",
            m.And(m.Not(strict[0]), m.Not(strict[1])), key="schedule:pixel-written-by-two-cells")
