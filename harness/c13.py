"""C13 -- loading a subset of groups or variables equals projecting the full load.

The C01 machinery (symbolic files, record-locator obligation, tree oracle) with select=...:
variable lists per group (the skip branch of the readers is then on the path and the locator
obligation covers it for all symbolic sizes), groups given as a list or switched off with
False, files of switched-off readers must not be opened.  Naming of merged vectors:
CrossHair contracts on make_vector_arrays (harness/ch_c13.py)."""
import itertools
import os

import numpy as np

from harness import common as C
from harness import loader_common as LC
from harness import c01 as B
from harness import c14 as P
from oracles import units as U

PROP = "C13"
FILES = ["src/osyris/io/loader.py", "src/osyris/io/reader.py", "src/osyris/io/utils.py", "src/osyris/io/part.py"]
FUNCTIONS = B.FUNCTIONS + ["osyris.io.reader.Reader.descriptor_to_variables (list / bool forms)", "osyris.io.part.PartReader",
                           "osyris.io.utils.make_vector_arrays (CrossHair contracts)"]
ASSUMPTIONS = B.ASSUMPTIONS + ["variable subsets: every all-but-one subset, every single hydro variable + geometry, partial component sets; "
                               "not all 2^k subsets",
                               "naming contracts: component family 'b'/'ab', other names over all strings of <= 2 characters over {x,y,z,_,a,b} "
                               "plus clash candidates; the Vector constructor is a recording stand-in"]
BOUNDS = {"quick": {"outputs": "2-D and 3-D, 2 CPUs, refined tree, hd/mhd + grav (+ particles for the group subsets)",
                    "variable subsets": "all-but-one (each variable of amr/hydro/grav), one hydro variable + geometry, partial position / velocity components",
                    "group subsets": "['mesh'], ['part'], ['mesh','part'], {'part': False}, {'mesh': False}",
                    "symbolic": "as C01 (header sizes, ghost counts, payloads)"},
          "thorough": {"as": "quick plus all pairs of dropped variables in 2-D"}}
FLOOR = {"quick": 3000, "thorough": 8000}
SHADOW_EVERY = 3
LIMITS = {"quick": {"max_paths": 400, "budget_s": 300}, "thorough": {"max_paths": 4000, "budget_s": 1800}}


def base_cfg(ndim, hydro, grav=True, ncpu=2, shape="refined-other"):
    return dict(ndim=ndim, ncpu=ncpu, shape=shape, nboundary=0, nxyz=[1, 1, 1], levelmax=2, hydro=hydro, grav=grav, rt=False,
                units=list(B.UNITSETS[0]), nout=1)


def all_vars(cfg):
    ndim = cfg["ndim"]
    amr = ["level", "cpu", "dx"] + [f"position_{c}" for c in "xyz"[:ndim]]
    return amr, LC.hydro_vars(cfg["hydro"], ndim), (LC.grav_vars(ndim) if cfg["grav"] else [])


def configs(tier):
    out = []
    for ndim, hs in ((2, "hd"), (3, "mhd")):
        base = base_cfg(ndim, hs)
        amr, hyd, grv = all_vars(base)
        everything = amr + hyd + grv
        subsets = []
        for v in everything:
            subsets.append([x for x in everything if x != v])              # all but one
        for v in hyd:
            subsets.append(amr + [v])                                      # a single hydro variable
        subsets.append([x for x in everything if not x.startswith("velocity")] + ["velocity_x"])
        subsets.append(["dx", "level", "density"])
        subsets.append([x for x in everything if x not in ("density", "level")])
        if tier != "quick" and ndim == 2:
            for a, b in itertools.combinations(everything, 2):
                subsets.append([x for x in everything if x not in (a, b)])
        for i, sub in enumerate(subsets):
            out.append(dict(base, kind="vars", subset=sub, load="all:zero"))
            if i % 4 == 0:
                out.append(dict(base, kind="vars", subset=sub, load="file:1", _split=0))
    for ndim in (2, 3):
        base = base_cfg(ndim, "two", grav=False)
        for sel in (["mesh"], ["part"], ["mesh", "part"], {"part": False}, {"mesh": False}, None):
            out.append(dict(base, kind="groups", select=sel, load="all:zero"))
        # variable lists for the particle and the sink group: exactly the projection of the full load
        for sel in ({"part": ["mass", "position_x"]}, {"part": ["identity", "velocity_x", "velocity_y", "velocity_z"][: 1 + ndim]},
                    {"sink": ["msink", "x"]}, {"sink": ["id", "x", "y", "z"][: 1 + ndim]}):
            out.append(dict(base, kind="listvars", select=sel, load="all:zero"))
    return out


def expected_keys(subset, ndim):
    """Names the mesh group must contain for a variable subset (vectors merged iff all components present)."""
    keys = set(subset)
    comps = "xyz"[:ndim]
    if ndim > 1:
        fams = {}
        for v in subset:
            arr = None
            for i, ch in enumerate(v):
                if ch in "xyz" and i > 0 and v[i - 1] == "_" and (i == len(v) - 1 or v[i + 1] == "_"):
                    fams.setdefault(v[:i - 1] + v[i + 1:], {})[ch] = v
        for fam, members in fams.items():
            if all(c in members for c in comps):
                for c in comps:
                    keys.discard(members[c])
                keys.add(fam)
    return keys


def body(m, cfg):
    if m.symbolic:
        return _body(m, cfg)
    try:
        _body(m, cfg)
    except Exception as e:
        m.failed.append("*")
        m.notes = f"{type(e).__name__}: {e}"
        return
    if m.failed:
        m.notes = list(m.failed)
        m.failed.append("*")


def _body(m, cfg):
    import osyris
    out = B.make_output(m, cfg)
    try:
        ndim = cfg["ndim"]
        if cfg["kind"] in ("groups", "listvars"):
            out.add_particles(P.part_columns("std", ndim), [1, 2])
        mode, arg = cfg["load"].split(":")
        out.build(ghosts=("symbolic" if mode == "file" else arg))
        if cfg["kind"] in ("groups", "listvars"):
            out.build_particles()
        if cfg["kind"] == "listvars":
            out.add_sinks(["id", "msink", "x", "y"] + (["z"] if ndim == 3 else []), ["1", "m", "l", "l"] + (["l"] if ndim == 3 else []), 2)
            from symx import install as _install
            S = _install.mod("osyris.io.sink")
            old_np = S.np
            if m.symbolic:
                class _NP:
                    def __getattr__(self_, k):
                        return getattr(old_np, k)
                stub = _NP()
                stub.loadtxt = out.sink_loadtxt(np.loadtxt)
                S.np = stub
        saved = LC.install_shims(out) if m.symbolic else None
        if not m.symbolic:
            # record the binary files the real loader opens
            from symx import install
            Ld = install.mod("osyris.io.loader")
            real_open = open

            def spy(fname, mode="r", *a, **k):
                if "b" in mode:
                    out.opened.append(os.path.basename(str(fname)))
                return real_open(fname, mode, *a, **k)
            Ld.open = spy
        try:
            with LC.quiet():
                ds = osyris.RamsesDataset(1, path=out.root)
                kw = {}
                if mode == "file":
                    kw["cpu_list"] = [int(arg) + 1]
                if cfg["kind"] == "vars":
                    kw["select"] = {"mesh": list(cfg["subset"])}
                elif cfg["select"] is not None:
                    kw["select"] = cfg["select"]
                ds.load(**kw)
                if cfg["kind"] == "listvars":
                    full = osyris.RamsesDataset(1, path=out.root)
                    full.load()
        finally:
            if cfg["kind"] == "listvars":
                S.np = old_np
            if saved is not None:
                LC.remove_shims(saved)
            else:
                Ld.__dict__.pop("open", None)
        owners = None if mode == "all" else {int(arg)}
        if cfg["kind"] == "listvars":
            return _check_listvars(m, cfg, ds, full)
        if cfg["kind"] == "vars":
            _check_vars(m, cfg, out, ds, owners)
        else:
            _check_groups(m, cfg, out, ds)
    finally:
        out.cleanup()


def _check_vars(m, cfg, out, ds, owners):
    ndim = cfg["ndim"]
    subset = cfg["subset"]
    amr, hyd, grv = all_vars(cfg)
    dropped = [v for v in amr + hyd + grv if v not in subset]
    tag = f"vars:{ndim}d:drop-" + ("+".join(dropped) if len(dropped) <= 2 else f"{len(dropped)}vars")
    stored = [v for v in hyd + grv if v in subset]
    if not m.require("mesh" in ds, "mesh group present", key=f"rows:{tag}"):
        return
    g = ds["mesh"]
    want = expected_keys(subset, ndim)
    derived = set()
    if "density" in subset and "dx" in subset:
        derived.add("mass")
    if ndim > 1 and "B_left" in want and "B_right" in want:
        derived.add("B_field")
    got = set(g.keys())
    m.require(got - derived == want, "the mesh group holds exactly the requested variables (components merged iff all present)",
              key=f"keys:{tag}", info={"extra": sorted(got - derived - want), "missing": sorted(want - got)})
    if stored:
        kind = "hydro" if stored[0] in hyd else "grav"
        B.check_mesh(m, cfg, out, ds, owners=owners, tag=tag, variables=set(stored), prov=(kind, stored[0]), geometry=set(subset))
    else:
        leaves = [(o, i) for (o, i) in out.leaves() if owners is None or o.owner in owners]
        n = len(leaves)
        m.require(all(tuple(g[k].shape) == (n,) for k in g.keys()), "one row per leaf cell", key=f"rows:{tag}")
    m.require(int(ds.meta["ncells"]) == len([x for x in out.leaves() if owners is None or x[0].owner in owners]), "ncells", key=f"ncells:{tag}")


def _check_listvars(m, cfg, ds, full):
    """A variable list for the particle / sink group: the group holds exactly the listed variables (components merged iff all
    are listed), each equal to the full load's; the groups not mentioned are loaded in full."""
    ndim = cfg["ndim"]
    (gname, names), = cfg["select"].items()
    tag = f"listvars:{ndim}d:{gname}:{'+'.join(names)}"
    if not m.require(gname in ds and gname in full, "the group is present", key=f"group:{tag}"):
        return
    g, f = ds[gname], full[gname]

    def cols(grp):
        d = {}
        for k in grp.keys():
            v = grp[k]
            if C.is_vec(v):
                for c, a in C.vcomps(v).items():
                    d[(k, c)] = a
            else:
                d[(k, "")] = v
        return d
    want = expected_keys(names, ndim)
    if gname == "sink" or gname == "part":
        # bare x / y / z columns merge into 'position' (sinks), *_x/_y/_z into their family name
        comps = "xyz"[:ndim]
        if all(c in names for c in comps):
            want = (want - set(comps)) | {"position"}
    m.require(set(g.keys()) == want, "the group holds exactly the requested variables (components merged iff all present)", key=f"keys:{tag}",
              info={"got": sorted(g.keys()), "want": sorted(want)})
    cg, cf = cols(g), cols(f)
    fs = []
    for name in names:
        # locate the column in both loads: as a scalar under its own name or as a component of the merged family
        def find(cc):
            if (name, "") in cc:
                return cc[(name, "")]
            for (k, c), a in cc.items():
                if c and (name == k + "_" + c or (k == "position" and name == c)):
                    return a
            return None
        a, b = find(cg), find(cf)
        if not m.require(a is not None and b is not None, f"{name} is returned", key=f"missing:{tag}", info=name):
            continue
        if m.require(tuple(a.shape) == tuple(b.shape) and str(a.unit) == str(b.unit), f"{name}: shape and unit of the full load", key=f"shape:{tag}"):
            fs += [m.close(x, y, exact=True) for x, y in zip(m.vals(a._array), m.vals(b._array))]
    m.check("every requested variable equals the full load's", m.And(fs), key=f"values:{tag}")
    for other in ("mesh", "part", "sink"):
        if other != gname and other in full:
            m.require(other in ds and set(ds[other].keys()) == set(full[other].keys()), f"group {other}, not mentioned in the selection, is loaded in full",
                      key=f"other-groups:{tag}")


def _check_groups(m, cfg, out, ds):
    ndim = cfg["ndim"]
    sel = cfg["select"]
    tag = f"groups:{ndim}d:{sel}"
    if sel is None:
        want_mesh = want_part = True
    elif isinstance(sel, list):
        want_mesh, want_part = "mesh" in sel, "part" in sel
    else:
        want_mesh, want_part = sel.get("mesh", True) is not False, sel.get("part", True) is not False
    m.require(("mesh" in ds and len(ds["mesh"]) > 0) == want_mesh, "mesh group present iff requested", key=f"group-mesh:{tag}")
    m.require(("part" in ds and len(ds["part"]) > 0) == want_part, "particle group present iff requested", key=f"group-part:{tag}")
    opened = set(out.opened)
    kinds = {b.split("_")[0] for b in opened}
    m.require(("hydro" in kinds) == want_mesh, "hydro files opened iff the mesh is requested", key=f"files:{tag}", info=sorted(kinds))
    m.require(("part" in kinds) == want_part, "particle files opened iff particles are requested", key=f"files:{tag}", info=sorted(kinds))
    m.require(("amr" in kinds) == want_mesh or ("amr" in kinds and want_part), "amr files opened only when needed", key=f"files-amr:{tag}",
              info=sorted(kinds))
    if want_mesh:
        B.check_mesh(m, cfg, out, ds, tag=tag)
    if want_part:
        P._check_part(m, dict(cfg, pset="std", npart=[1, 2]), out, ds)


def _extra(e):
    from symx import driver
    here = os.path.dirname(os.path.abspath(__file__))
    return driver.crosshair_extra(os.path.join(here, "ch_c13.py"), PROP, timeout=150)


def main(argv):
    from symx import driver
    driver.main("c13", argv, extra=_extra)
