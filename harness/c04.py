"""C04 -- selective loading equals filtering the full load (CPU pre-selection is sound).

(a) curve structure of the real _hilbert3d on symbolic integer coordinates (the bit tests fork:
    the solver walks all cells): prefix property H_b(x,y,z) div 8 = H_{b-1}(x div 2, ...), keys in
    [0, 8^b), injectivity;
(b) soundness of the real _get_cpu_list for a symbolic bounding box and a symbolic increasing key
    table: the search cubes cover the box, and every CPU whose key interval meets the key range of
    a search cube is returned;
(c) hilbert_cpu_list's bounding box contains every cell centre (of any level) satisfying an
    interval predicate with symbolic bounds;
(d) end to end on symbolic files (C01 machinery): value predicates with symbolic thresholds,
    position predicates with symbolic bounds, both combined, explicit cpu_list, Hilbert and
    non-Hilbert ordering: rows = rows of the full load satisfying all predicates."""
import itertools
import os

import numpy as np

from harness import common as C
from harness import loader_common as LC
from harness import c01 as B
from oracles import units as U

PROP = "C04"
FILES = ["src/osyris/io/hilbert.py", "src/osyris/io/amr.py", "src/osyris/io/loader.py", "src/osyris/io/reader.py"]
FUNCTIONS = B.FUNCTIONS + ["osyris.io.hilbert._hilbert3d", "osyris.io.hilbert._get_cpu_list", "osyris.io.hilbert.hilbert_cpu_list",
                           "osyris.io.reader.Reader.make_conditions", "osyris.io.hilbert._read_bound_key (concrete texts only)"]
ASSUMPTIONS = B.ASSUMPTIONS + [
    "the Hilbert key of a cell is the one osyris' own _hilbert3d gives (copied from RAMSES; no independent RAMSES is available offline): the "
    "curve lemmas (a) are structural (prefix property, range, injectivity), not a comparison with another implementation",
    "end-to-end outputs have ALIGNED decompositions: every cell stored in a CPU's file has its own key inside that CPU's key interval. RAMSES "
    "stores an oct with the CPU owning its FATHER cell, so when a bound key falls inside an oct's key range some of its leaf cells are keyed to "
    "the neighbouring CPU; for selection boxes smaller than such a leaf's father cell the pre-selection may then miss the file holding it. "
    "That regime needs RAMSES' ownership semantics to be modelled faithfully and is NOT covered (suspected weakness, see DESIGN.md)",
    "2-D / 1-D outputs: RAMSES keys them with hilbert2d / a linear order, osyris always uses the 3-D curve with dkey = cube^ndim; (b) is proved "
    "for ndim = 3 only; end-to-end 2-D runs use non-Hilbert ordering (no pre-selection)",
    "_read_bound_key's text parsing (int(float(...)), keys above 2^53) is exercised on concrete tables only"]
BOUNDS = {"quick": {"curve": "bit lengths 1-2 (prefix, range), injectivity at 1 bit", "cpu list": "ncpu 2-3, levelmax = lmax in {2,3} and lmax < levelmax, symbolic box and keys",
                    "box derivation": "levelmax 2-3, predicates x>a, x<b, a<x<b, on 1-2 axes", "end to end": "3-D aligned 2-CPU tree (36 leaves), 2-D non-Hilbert; "
                    "value / position / combined predicates with symbolic bounds, cpu_list"},
          "thorough": {"curve": "bit length 3 and injectivity at 2 bits", "cpu list": "ncpu 4, levelmax 4"}}
FLOOR = {"quick": 3000, "thorough": 10000}
SHADOW_EVERY = 5
LIMITS = {"quick": {"max_paths": 5000, "budget_s": 500}, "thorough": {"max_paths": 60000, "budget_s": 3000}}


def configs(tier):
    out = []
    for b in ((1, 2) if tier == "quick" else (1, 2, 3)):
        out.append(dict(kind="curve", b=b, what="prefix", _split=(0 if b == 1 else 4), _noshadow=True))
    out.append(dict(kind="curve", b=1, what="injective", _split=2, _noshadow=True))
    if tier != "quick":
        out.append(dict(kind="curve", b=2, what="injective", _split=4, _noshadow=True, max_paths=10000))
    combos = [(2, 2, 2), (2, 3, 2), (3, 2, 2)] if tier == "quick" else \
        [(2, 2, 2), (2, 3, 2), (3, 2, 2), (2, 3, 3), (3, 3, 3), (3, 3, 2), (4, 2, 2), (2, 4, 4), (2, 4, 2)]
    for ncpu, levelmax, lmax in combos:
        out.append(dict(kind="cpulist", ncpu=ncpu, levelmax=levelmax, lmax=lmax, keys="symbolic", _split=5, _noshadow=True, max_paths=40000,
                        budget_s=2400))
    # the covering of the box by the search cubes does not depend on the key table: concrete keys, deeper levels
    for levelmax, lmax in ([(3, 3), (4, 3)] if tier == "quick" else [(3, 3), (4, 3), (4, 4), (5, 4)]):
        out.append(dict(kind="cpulist", ncpu=2, levelmax=levelmax, lmax=lmax, keys="concrete", _split=5, _noshadow=True, max_paths=40000,
                        budget_s=2400))
    for levelmax in (2, 3):
        for form in ("gt", "lt", "between"):
            for axes in ("x", "xy", "z"):
                out.append(dict(kind="box", levelmax=levelmax, form=form, axes=axes, _noshadow=True))
    for sel in ("value", "position-x", "position-xz", "value+position", "cpulist"):
        for ordering in ("hilbert", "planar"):
            out.append(dict(kind="load", ndim=3, sel=sel, ordering=ordering, _split=3))
    for sel in ("value", "position-x", "value+position", "value2", "value2+position"):
        out.append(dict(kind="load", ndim=2, sel=sel, ordering="planar", _split=3))
    # a position predicate together with a level predicate that caps the levels read below the header's levelmax (the key table
    # stays expressed at levelmax + 1): the header announces one level more than the tree has, the predicate accepts l <= 2
    for sel in (("position-x+level",) if tier == "quick" else ("position-x+level", "position-xz+level")):
        out.append(dict(kind="load", ndim=3, sel=sel, ordering="hilbert", _split=4))
    return out


def body(m, cfg):
    k = cfg["kind"]
    if k == "curve":
        return _curve(m, cfg)
    if k == "cpulist":
        return _cpulist(m, cfg)
    if k == "box":
        return _box(m, cfg)
    if m.symbolic:
        return _load(m, cfg)
    try:
        _load(m, cfg)
    except Exception as e:
        m.failed.append("*")
        m.notes = f"{type(e).__name__}: {e}"
        return
    if m.failed:
        m.notes = list(m.failed)
        m.failed.append("*")


# ----------------------------------------------------------------------------- (a) curve


def _curve(m, cfg):
    from symx import install
    Hm = install.mod("osyris.io.hilbert")
    b, what = cfg["b"], cfg["what"]
    tag = f"curve:{what}:b{b}"
    n = 2 ** b
    x, y, z = m.int("x", lo=0, hi=n - 1), m.int("y", lo=0, hi=n - 1), m.int("z", lo=0, hi=n - 1)
    h = Hm._hilbert3d(x, y, z, b)           # the bit tests fork: one path per cell
    if not m.require(isinstance(h, (int, np.integer)), "the key is determined by the coordinates", key=f"type:{tag}"):
        return
    m.require(0 <= int(h) < 8 ** b, "the key lies in [0, 8^b)", key=f"range:{tag}")
    # on this path x, y, z are determined: read them back from the model of the path condition
    from symx.core import Ctx, model_value
    mdl = Ctx.cur.get_model() if m.symbolic else None
    xv, yv, zv = [(model_value(mdl, t.t) if m.symbolic else t) for t in (x, y, z)]
    if m.symbolic:
        m.check("the path fixes the cell", m.And(m.eq(x, xv), m.eq(y, yv), m.eq(z, zv)), key=f"determined:{tag}")
    if what == "prefix":
        if b > 1:
            parent = Hm._hilbert3d(xv // 2, yv // 2, zv // 2, b - 1)
            m.require(int(h) // 8 == int(parent), "prefix property: the key of a cell div 8 is the key of its parent cell", key=f"prefix:{tag}",
                      info={"cell": [xv, yv, zv], "key": int(h), "parent": int(parent)})
        else:
            m.ok("1 bit: range only")
    else:
        x2, y2, z2 = m.int("x2", lo=0, hi=n - 1), m.int("y2", lo=0, hi=n - 1), m.int("z2", lo=0, hi=n - 1)
        m.assume(m.Or(m.Not(m.eq(x2, xv)), m.Not(m.eq(y2, yv)), m.Not(m.eq(z2, zv))))
        h2 = Hm._hilbert3d(x2, y2, z2, b)
        m.require(int(h2) != int(h), "two different cells have different keys", key=f"injective:{tag}")


# ----------------------------------------------------------------------------- (b) cpu list


def _cpulist(m, cfg):
    from symx import install, core
    Hm = install.mod("osyris.io.hilbert")
    ncpu, levelmax, lmax = cfg["ncpu"], cfg["levelmax"], cfg["lmax"]
    tag = f"cpulist:ncpu{ncpu}:L{levelmax}:l{lmax}"
    top = 8 ** (levelmax + 1)
    if cfg.get("keys", "symbolic") == "symbolic":
        keys = [0] + [m.int(f"key{i}", lo=1, hi=top - 1) for i in range(1, ncpu)] + [top]
        for a, b_ in zip(keys, keys[1:]):
            m.assume(m.lt(a, b_))
    else:
        keys = [top * i // ncpu for i in range(ncpu + 1)]
    tag += ":" + cfg.get("keys", "symbolic")
    bb, B_ = {}, {}
    for ax in "xyz":
        lo, hi = m.real(ax + "min", lo=0.0, hi=1.0), m.real(ax + "max", lo=0.0, hi=1.0)
        m.assume(m.lt(lo, hi))
        bb[ax + "min"], bb[ax + "max"] = lo, hi
        B_[ax] = (m.t(lo), m.t(hi))
    calls = []
    real_h = Hm._hilbert3d
    real_rbk = Hm._read_bound_key

    def rec_h(x, y, z, bit_length):
        r = real_h(x, y, z, bit_length)
        calls.append(((x, y, z), bit_length, r))
        return r
    Hm._read_bound_key = lambda infofile, ncpu: list(keys)
    Hm._hilbert3d = rec_h
    try:
        cl = Hm._get_cpu_list(bb, lmax, levelmax, "unused", ncpu, 3)
    finally:
        Hm._hilbert3d = real_h
        Hm._read_bound_key = real_rbk
    m.require(len(set(cl)) == len(cl) and all(1 <= int(c) <= ncpu for c in cl), "a list of distinct CPU numbers", key=f"type:{tag}")
    got = set(int(c) for c in cl)
    K = [m.t(k) for k in keys]
    if not calls:
        # whole domain as a single cube
        cubes = [((0, 0, 0), 0, 0)]
    else:
        cubes = calls
    bit = cubes[0][1]
    maxdom = 2 ** bit
    dkey = (2 ** (levelmax + 1) // maxdom) ** 3
    # (geo) every point of the box lies in one of the search cubes
    px, py, pz = m.real("px"), m.real("py"), m.real("pz")
    P = [m.t(px), m.t(py), m.t(pz)]
    inbox = m.And([m.And(P[i] >= B_[ax][0], P[i] <= B_[ax][1]) for i, ax in enumerate("xyz")])
    incube = []
    for (c, bl, h) in cubes:
        cc = [int(core.concretise(v, core.Ctx.cur.get_model())) if m.symbolic and core.is_sym(v) else int(v) for v in c]
        incube.append(m.And([m.And(P[i] * maxdom >= cc[i], P[i] * maxdom <= cc[i] + 1) for i in range(3)]))
    m.check("every point of the bounding box lies in one of the search cubes", m.Implies(inbox, m.Or(incube)), key=f"cover:{tag}")
    # (key) every CPU whose key interval meets the key range of a search cube is returned
    fs = []
    for (c, bl, h) in cubes:
        lo, hi = int(h) * dkey, (int(h) + 1) * dkey
        for cpu in range(ncpu):
            meets = m.And(K[cpu] < hi, K[cpu + 1] > lo)
            if (cpu + 1) not in got:
                fs.append(m.Not(meets))
    m.check("no CPU owning keys of a search cube is left out", m.And(fs), key=f"sound:{tag}")


# ----------------------------------------------------------------------------- (c) box derivation


def _box(m, cfg):
    import osyris
    from osyris import Array
    from symx import install
    Hm = install.mod("osyris.io.hilbert")
    levelmax, form, axes = cfg["levelmax"], cfg["form"], cfg["axes"]
    tag = f"box:{form}:{axes}:L{levelmax}"
    boxlen, unit_l = 2.0, 3.0
    scaling = osyris.units._ureg.Quantity(unit_l, "cm")
    size = boxlen * unit_l
    a, b_ = m.real("a", lo=0.0, hi=size), m.real("b", lo=0.0, hi=size)
    if form == "between":
        m.assume(m.lt(a, b_))

    def pred(x):
        av, bv = Array(a, unit="cm"), Array(b_, unit="cm")
        if form == "gt":
            return x > av
        if form == "lt":
            return x < bv
        return (x > av) & (x < bv)

    def holds(t):
        if form == "gt":
            return t > m.t(a)
        if form == "lt":
            return t < m.t(b_)
        return m.And(t > m.t(a), t < m.t(b_))
    select = {f"position_{c}": pred for c in axes}
    meta = {"ordering type": "hilbert", "boxlen": boxlen, "levelmax": levelmax, "lmax": levelmax, "ncpu": 2, "ndim": 3}
    rec = {}
    real = Hm._get_cpu_list
    Hm._get_cpu_list = lambda **k: rec.update(k) or [1]
    try:
        try:
            Hm.hilbert_cpu_list(meta=meta, scaling=scaling, select=select, infofile="unused")
        except ValueError:
            # no finest-level centre satisfies the predicate: outside the property's premise
            from symx.core import Abort
            raise Abort("cut: the predicate holds for no finest-level cell centre")
    finally:
        Hm._get_cpu_list = real
    if not m.require("bounding_box" in rec, "a bounding box is derived", key=f"box-missing:{tag}"):
        return
    bbx = rec["bounding_box"]
    fs = []
    for c in "xyz":
        lo, hi = m.t(bbx[c + "min"]) * size, m.t(bbx[c + "max"]) * size
        if c not in axes:
            fs.append(m.And(m.le(lo, 0), m.ge(hi, size)))
            continue
        for lev in range(1, levelmax + 1):
            nc = 2 ** lev
            for i in range(nc):
                centre = (i + 0.5) * size / nc
                fs.append(m.Implies(holds(centre), m.And(lo <= centre, centre <= hi)))
    m.check("every cell centre (of any level) satisfying the predicate lies in the derived box", m.And(fs), key=f"box:{tag}")


# ----------------------------------------------------------------------------- (d) end to end


def aligned_tree(out, cfg):
    """3-D, 2 CPUs, levelmax 2: the root cells whose 1-bit key is >= 4 are refined and their octs belong to CPU 2;
    bound keys [0, 4*64, 512]: every cell's own key lies in the key interval of the CPU whose file stores it."""
    from symx import install
    Hm = install.mod("osyris.io.hilbert")
    root = out.new_oct(1, [0.5, 0.5, 0.5], 0, "A")
    j = 0
    for ind in range(8):
        ix, iy, iz = ind & 1, (ind >> 1) & 1, (ind >> 2) & 1
        if int(Hm._hilbert3d(ix, iy, iz, 1)) >= 4:
            out.refine(root, ind, 1, "BCDE"[j])
            j += 1
    return root


def _load(m, cfg):
    import osyris
    from osyris import Array
    ndim, sel, ordering = cfg["ndim"], cfg["sel"], cfg["ordering"]
    tag = f"load:{ndim}d:{sel}:{ordering}"
    us = B.UNITSETS[0]
    if ndim == 3:
        Lh = 3 if "level" in sel else 2            # levelmax announced by the header
        fcfg = dict(ncpu=2, ndim=3, levelmin=1, levelmax=Lh, nboundary=0, nxyz=(1, 1, 1), unit_d=us[0], unit_l=us[1], unit_t=us[2], boxlen=us[3],
                    nout=1, bound_keys=[0, 4 * 8 ** Lh, 8 ** (Lh + 1)], ordering=ordering)
        out = LC.Output(m, fcfg)
        aligned_tree(out, cfg)
    else:
        base = dict(ndim=2, ncpu=2, shape="refined-other", nboundary=0, nxyz=[1, 1, 1], levelmax=2, hydro="two", grav=False, rt=False,
                    units=list(us), nout=1)
        fcfg = dict(ncpu=2, ndim=2, levelmin=1, levelmax=2, nboundary=0, nxyz=(1, 1, 1), unit_d=us[0], unit_l=us[1], unit_t=us[2], boxlen=us[3],
                    nout=1, bound_keys=[0, 256, 512], ordering=ordering)
        out = LC.Output(m, fcfg)
        B.build_tree(out, base)
    try:
        out.fill_values("hydro", LC.hydro_vars("two", ndim))
        for o in out.octs:           # stored centres are the true ones (positions concrete), densities increasing in file order
            for k in range(ndim):
                m.assume(m.eq(m.t(o.xg[k]), o.centre_code[k]))
        dens = [m.t(x) for o in out.octs for x in o.vals["hydro"]["density"]]
        for p, q in zip(dens, dens[1:]):
            m.assume(m.lt(p, q))
        out.build(ghosts="zero")
        size = out.cfg["boxlen"] * out.cfg["unit_l"]
        select, kw = {}, {}
        thr = x0 = x1 = z0 = None
        if "value" in sel:
            thr = m.real("threshold")
            if "position" in sel:
                # combined with a position predicate: the threshold ranges over a window of the (ordered) densities only
                m.assume(m.And(m.gt(m.t(thr), dens[len(dens) // 3]), m.lt(m.t(thr), dens[len(dens) // 3 + 2])))
            select["density"] = lambda d: d > Array(thr * out.cfg["unit_d"], unit="g/cm**3")
        thr2 = None
        if "value2" in sel:
            # a second value predicate, on another variable of the same reader (AND): pressures increasing in file order too,
            # both thresholds inside a window of the ordered values
            pres = [m.t(x) for o in out.octs for x in o.vals["hydro"]["pressure"]]
            for p_, q_ in zip(pres, pres[1:]):
                m.assume(m.lt(p_, q_))
            thr2 = m.real("threshold2")
            k2 = 2 * len(pres) // 3
            m.assume(m.And(m.gt(m.t(thr2), pres[k2 - 1]), m.lt(m.t(thr2), pres[k2 + 1])))
            m.assume(m.And(m.gt(m.t(thr), dens[len(dens) // 3]), m.lt(m.t(thr), dens[len(dens) // 3 + 2])))
            fp = out.cfg["unit_d"] * (out.cfg["unit_l"] / out.cfg["unit_t"]) ** 2
            select["pressure"] = lambda p: p < Array(thr2 * fp, unit="erg/cm**3")
        if "position" in sel:
            x0 = m.real("x0", lo=0.0, hi=size)
            x1 = m.real("x1", lo=0.0, hi=size)
            m.assume(m.lt(x0, x1))
            select["position_x"] = lambda x: (x > Array(x0, unit="cm")) & (x < Array(x1, unit="cm"))
            if "xz" in sel:
                z0 = m.real("z0", lo=0.4 * size, hi=0.6 * size)
                select["position_z"] = lambda z: z >= Array(z0, unit="cm")
        if "level" in sel:
            select["level"] = lambda l: l <= 2
        if sel == "cpulist":
            kw["cpu_list"] = [2]
        if select:
            kw["select"] = {"mesh": select}
        saved = LC.install_shims(out) if m.symbolic else None
        try:
            with LC.quiet():
                try:
                    ds = osyris.RamsesDataset(1, path=out.root)
                    ds.load(**kw)
                except ValueError as e:
                    if "zero-size array" in str(e) and "position" in sel:
                        from symx.core import Abort
                        raise Abort("cut: the position predicate holds for no finest-level centre (outside the premise)")
                    raise
        finally:
            if saved is not None:
                LC.remove_shims(saved)
        xb = out.xbound()

        def keep(o, ind):
            fs = []
            if thr is not None:
                fs.append(m.gt(m.t(o.vals["hydro"]["density"][ind]), m.t(thr)))
            if thr2 is not None:
                fs.append(m.lt(m.t(o.vals["hydro"]["pressure"][ind]), m.t(thr2)))
            h = 0.5 ** o.level
            if x0 is not None:
                xc = (o.centre_code[0] + ((ind & 1) - 0.5) * h - xb[0]) * size
                fs += [m.gt(xc, m.t(x0)), m.lt(xc, m.t(x1))]
            if z0 is not None:
                zc = (o.centre_code[2] + (((ind >> 2) & 1) - 0.5) * h - xb[2]) * size
                fs.append(m.ge(zc, m.t(z0)))
            return m.decide(m.And(fs)) if fs else True
        owners = {1} if sel == "cpulist" else None
        B.check_mesh(m, dict(ndim=ndim), out, ds, owners=owners, tag=tag, row_filter=keep, variables=None)
        if m.symbolic and ordering == "hilbert" and "position" in sel:
            m.ok("files opened: " + ",".join(sorted(set(out.opened))))
    finally:
        out.cleanup()
