"""C20 -- Datagroup and Dataset behave as dictionaries; equality is by content.

Dictionary semantics: CrossHair contracts (harness/ch_c20.py), one inductive step from an
arbitrary valid pre-state.  Equality: the real Datagroup.__eq__ on groups with symbolic
member values; element comparisons fork, and on every path the verdict must be the
physical one."""
import itertools
import os

import numpy as np

from harness import common as C

PROP = "C20"
FILES = ["src/osyris/core/datagroup.py", "src/osyris/core/dataset.py"]
FUNCTIONS = ["osyris.core.datagroup.Datagroup.__eq__", "Datagroup.__setitem__/__delitem__/pop/get/update/clear/copy/__iter__/__len__/keys/items/values",
             "osyris.core.dataset.Dataset.__setitem__/__delitem__/pop/get/update/clear/copy/__iter__/__len__"]
ASSUMPTIONS = ["dictionary contracts use stand-in values exposing .shape/.name (the Array payload is irrelevant to dict semantics)",
               "key alphabet {a,b,c}, pre-states of <= 3 entries, member lengths 1..2 (CrossHair bounds)",
               "equality: a dead band of relative width 1e-9 is left free when a unit conversion is involved"]
BOUNDS = {"quick": {"equality": "<= 2 members (Array / Vector nvec 1..3), n <= 2 rows, all values symbolic; unit pairs equal / compatible / incompatible; "
                                "key sets equal / different / different order",
                    "dictionary": "CrossHair: 8 operations x {Datagroup, Dataset}, arbitrary pre-state over {a,b,c}"},
          "thorough": {"as": "quick with n <= 3 rows"}}
FLOOR = {"quick": 150, "thorough": 300}
SHADOW_EVERY = 1
LIMITS = {"quick": {"max_paths": 600, "budget_s": 120}, "thorough": {"max_paths": 4000, "budget_s": 600}}


def configs(tier):
    out = []
    ns = [1, 2] if tier == "quick" else [1, 2, 3]
    for n in ns:
        for members in (["A"], ["V3"], ["A", "V2"], ["A", "A"], ["V1"]):
            for ua, ub in [("m", "m"), ("m", "cm"), ("cm", "pc"), ("m", "s")]:
                out.append(dict(kind="eq", n=n, members=members, ua=ua, ub=ub))
    for keys in (["a", "b"], ["b"], ["b", "a"], ["a", "c"], []):
        out.append(dict(kind="keys", k1=["a"] if keys != ["b", "a"] else ["a", "b"], k2=keys))
    out.append(dict(kind="identical"))
    return out


def _member(m, kind, name, n, unit):
    from osyris import Array, Vector
    if kind == "A":
        return Array(m.array(name, (n,), "float64"), unit=unit)
    nvec = int(kind[1])
    return Vector(*[m.array(name + c, (n,), "float64") for c in "xyz"[:nvec]], unit=unit)


def _terms(m, member):
    from osyris import Array
    if isinstance(member, Array):
        return m.vals(member._array)
    return [t for c in C.vcomps(member).values() for t in m.vals(c._array)]


def body(m, cfg):
    from osyris import Array, Datagroup
    from pint.errors import DimensionalityError
    kind = cfg["kind"]
    if kind == "keys":
        d1, d2 = Datagroup(), Datagroup()
        for k in cfg["k1"]:
            d1[k] = Array(m.array("p" + k, (2,), "float64"), unit="m")
        for k in cfg["k2"]:
            d2[k] = Array(np.asarray(d1[k]._array).copy() if (k in d1 and not m.symbolic) else
                          (d1[k]._array.copy() if k in d1 else m.array("q" + k, (2,), "float64")), unit="m")
        same_keys = set(cfg["k1"]) == set(cfg["k2"])
        try:
            r = (d1 == d2)
        except Exception as e:
            m.fail(f"== raises {type(e).__name__}", key=f"eq-raises:keys")
            return
        m.require(bool(r) == same_keys, "groups with different key sets are unequal; same keys and contents equal (any order)",
                  key=f"eq-keys:{'same' if same_keys else 'different'}")
        return
    if kind == "identical":
        d1 = Datagroup()
        d1["a"] = Array(m.array("a", (2,), "float64"), unit="m")
        m.require(bool(d1 == d1) is True, "a group equals itself", key="eq-self")
        m.require(bool(d1 == d1.copy()) is True, "a group equals its copy", key="eq-copy")
        return
    n, members, ua, ub = cfg["n"], cfg["members"], cfg["ua"], cfg["ub"]
    fa, da = C.fd(ua)
    fb, db = C.fd(ub)
    tag = f"{'+'.join(members)}:{'same' if ua == ub else ('compat' if da == db else 'incompat')}"
    d1, d2 = Datagroup(), Datagroup()
    for i, mk in enumerate(members):
        d1[f"k{i}"] = _member(m, mk, f"p{i}", n, ua)
        d2[f"k{i}"] = _member(m, mk, f"q{i}", n, ub)
    t1 = [t for k in d1.keys() for t in _terms(m, d1[k])]
    t2 = [t for k in d2.keys() for t in _terms(m, d2[k])]
    try:
        r = (d1 == d2)
    except DimensionalityError:
        m.fail("== raises for incompatible units instead of answering False", key=f"eq-raises:{tag}")
        return
    except Exception as e:
        m.fail(f"== raises {type(e).__name__}: {e}", key=f"eq-raises:{tag}")
        return
    if not m.require(isinstance(r, (bool, np.bool_)), "== returns a bool", key=f"eq-type:{tag}"):
        return
    if da != db:
        m.require(not r, "same numbers in incompatible units are not equal", key=f"eq-incompat:{tag}")
        return
    exact = ua == ub
    d = 0 if exact else None
    pair = []
    for x, y in zip(t1, t2):
        X, Y = m.t(x) * fa, m.t(y) * fb
        if exact:
            pair.append((X == Y, m.Not(X == Y)))
        else:
            band = m.tol_term() * (m.abs(X) + m.abs(Y))
            clearly_ne = m.Or(X < Y - band, X > Y + band)
            pair.append((None, clearly_ne))
    if r:
        # claimed equal: no pair may be clearly different
        m.check("groups reported equal have element-wise equal members", m.And([m.Not(p[1]) for p in pair]), key=f"eq-true:{tag}")
    else:
        # claimed different: in the exact case some pair must differ
        if exact:
            m.check("groups reported different do differ somewhere", m.Or([p[1] for p in pair]), key=f"eq-false:{tag}")
        else:
            m.ok("reported different (conversion involved: not obligated inside the dead band)")


def _extra(e):
    from symx import driver
    here = os.path.dirname(os.path.abspath(__file__))
    t = 180 if e["tier"] == "quick" else 400
    return driver.crosshair_extra(os.path.join(here, "ch_c20.py"), PROP, timeout=t)


def main(argv):
    from symx import driver
    driver.main("c20", argv, extra=_extra)
