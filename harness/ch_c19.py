"""CrossHair contracts for C19: per-layer options override call options; parse_layer does
not modify the Layer it is given.  Option values are opaque to the code under check (it only
tests `is None`), so ints/strs stand in for every option type."""
from typing import Optional

from osyris.core.layer import Layer
from osyris.plot.parser import parse_layer


class _Data:
    def __init__(self, name):
        self.name = name


def _expect(lv, cv):
    return lv if lv is not None else cv



OPTS = ("mode", "operation", "norm", "vmin", "vmax", "bins", "weights", "alpha")


def _run_parse(lv, cv):
    """lv / cv: dicts option -> value (None = unset) at layer level / call level."""
    d = _Data("density")
    aux = {"position": _Data("position")}
    lkw = {k: v for k, v in lv.items() if k != "alpha"}
    if lv.get("alpha") is not None:
        lkw["alpha"] = lv["alpha"]
    layer = Layer(d, aux=aux, **lkw)
    before_kwargs = dict(layer.kwargs)
    kw_id = id(layer.kwargs)
    ckw = {k: v for k, v in cv.items() if k != "alpha"}
    if cv.get("alpha") is not None:
        ckw["alpha"] = cv["alpha"]
    out = parse_layer(layer, **ckw)
    for k in OPTS:
        got = out.kwargs.get("alpha") if k == "alpha" else getattr(out, k)
        if got != _expect(lv.get(k), cv.get(k)):
            return False
        now = layer.kwargs.get("alpha") if k == "alpha" else getattr(layer, k)
        if now != lv.get(k):
            return False
    if layer.kwargs != before_kwargs or id(layer.kwargs) != kw_id or out.kwargs is layer.kwargs or out is layer:
        return False
    if out.arrays is layer.arrays or out.data is not d or out["position"] is not aux["position"]:
        return False
    out.kwargs["norm"] = 1          # what map() does to the parsed copy must not reach the caller's Layer
    return "norm" not in layer.kwargs


def _run_update(lv, cv):
    lkw = {k: v for k, v in lv.items() if k != "alpha"}
    if lv.get("alpha") is not None:
        lkw["alpha"] = lv["alpha"]
    layer = Layer(_Data("d"), **lkw)
    ckw = {k: v for k, v in cv.items() if k != "alpha"}
    if cv.get("alpha") is not None:
        ckw["alpha"] = cv["alpha"]
    layer.update(**ckw)
    for k in OPTS:
        got = layer.kwargs.get("alpha") if k == "alpha" else getattr(layer, k)
        if got != _expect(lv.get(k), cv.get(k)):
            return False
    return True


def parse_layer_mode(lv: Optional[str], cv: Optional[str], other: Optional[int]) -> bool:
    """
    pre: (lv is None or len(lv) <= 2) and (cv is None or len(cv) <= 2)
    post: _
    """
    o = "bins" if "mode" != "bins" else "weights"       # a second option set at call level only
    return _run_parse({"mode": lv}, {"mode": cv, o: other})


def update_mode(lv: Optional[str], cv: Optional[str]) -> bool:
    """
    pre: (lv is None or len(lv) <= 2) and (cv is None or len(cv) <= 2)
    post: _
    """
    return _run_update({"mode": lv}, {"mode": cv})


def parse_layer_operation(lv: Optional[str], cv: Optional[str], other: Optional[int]) -> bool:
    """
    pre: (lv is None or len(lv) <= 2) and (cv is None or len(cv) <= 2)
    post: _
    """
    o = "bins" if "operation" != "bins" else "weights"       # a second option set at call level only
    return _run_parse({"operation": lv}, {"operation": cv, o: other})


def update_operation(lv: Optional[str], cv: Optional[str]) -> bool:
    """
    pre: (lv is None or len(lv) <= 2) and (cv is None or len(cv) <= 2)
    post: _
    """
    return _run_update({"operation": lv}, {"operation": cv})


def parse_layer_norm(lv: Optional[str], cv: Optional[str], other: Optional[int]) -> bool:
    """
    pre: (lv is None or len(lv) <= 2) and (cv is None or len(cv) <= 2)
    post: _
    """
    o = "bins" if "norm" != "bins" else "weights"       # a second option set at call level only
    return _run_parse({"norm": lv}, {"norm": cv, o: other})


def update_norm(lv: Optional[str], cv: Optional[str]) -> bool:
    """
    pre: (lv is None or len(lv) <= 2) and (cv is None or len(cv) <= 2)
    post: _
    """
    return _run_update({"norm": lv}, {"norm": cv})


def parse_layer_vmin(lv: Optional[int], cv: Optional[int], other: Optional[int]) -> bool:
    """
    post: _
    """
    o = "bins" if "vmin" != "bins" else "weights"       # a second option set at call level only
    return _run_parse({"vmin": lv}, {"vmin": cv, o: other})


def update_vmin(lv: Optional[int], cv: Optional[int]) -> bool:
    """
    post: _
    """
    return _run_update({"vmin": lv}, {"vmin": cv})


def parse_layer_vmax(lv: Optional[int], cv: Optional[int], other: Optional[int]) -> bool:
    """
    post: _
    """
    o = "bins" if "vmax" != "bins" else "weights"       # a second option set at call level only
    return _run_parse({"vmax": lv}, {"vmax": cv, o: other})


def update_vmax(lv: Optional[int], cv: Optional[int]) -> bool:
    """
    post: _
    """
    return _run_update({"vmax": lv}, {"vmax": cv})


def parse_layer_bins(lv: Optional[int], cv: Optional[int], other: Optional[int]) -> bool:
    """
    post: _
    """
    o = "bins" if "bins" != "bins" else "weights"       # a second option set at call level only
    return _run_parse({"bins": lv}, {"bins": cv, o: other})


def update_bins(lv: Optional[int], cv: Optional[int]) -> bool:
    """
    post: _
    """
    return _run_update({"bins": lv}, {"bins": cv})


def parse_layer_weights(lv: Optional[int], cv: Optional[int], other: Optional[int]) -> bool:
    """
    post: _
    """
    o = "bins" if "weights" != "bins" else "weights"       # a second option set at call level only
    return _run_parse({"weights": lv}, {"weights": cv, o: other})


def update_weights(lv: Optional[int], cv: Optional[int]) -> bool:
    """
    post: _
    """
    return _run_update({"weights": lv}, {"weights": cv})


def parse_layer_alpha(lv: Optional[int], cv: Optional[int], other: Optional[int]) -> bool:
    """
    post: _
    """
    o = "bins" if "alpha" != "bins" else "weights"       # a second option set at call level only
    return _run_parse({"alpha": lv}, {"alpha": cv, o: other})


def update_alpha(lv: Optional[int], cv: Optional[int]) -> bool:
    """
    post: _
    """
    return _run_update({"alpha": lv}, {"alpha": cv})


def parse_layer_all_together(layer_set: bool, call_set: bool, a: int, b: int) -> bool:
    """
    post: _
    """
    lv = {k: ((a + i) if layer_set else None) for i, k in enumerate(OPTS)}
    cv = {k: ((b - i) if call_set else None) for i, k in enumerate(OPTS)}
    return _run_parse(lv, cv)


def parse_layer_mixed(mask: int, a: int, b: int) -> bool:
    """
    pre: 0 <= mask < 256
    post: _
    """
    lv = {k: ((a + i) if (mask // (2 ** i)) % 2 == 1 else None) for i, k in enumerate(OPTS)}
    cv = {k: (b - i) for i, k in enumerate(OPTS)}
    return _run_parse(lv, cv)


def copy_independent(lmode: Optional[str], lextra: Optional[int], newmode: Optional[str], newextra: int) -> bool:
    """
    pre: (lmode is None or len(lmode) <= 2) and (newmode is None or len(newmode) <= 2)
    post: _
    """
    lkw = {} if lextra is None else {"alpha": lextra}
    d = _Data("d")
    layer = Layer(d, aux={"dx": _Data("dx")}, mode=lmode, **lkw)
    c = layer.copy()
    c.mode = newmode
    c.kwargs["alpha"] = newextra
    c.arrays["extra"] = d
    return (layer.mode == lmode and layer.kwargs == lkw and "extra" not in layer.arrays and c.data is d
            and c.key == layer.key and list(c.keys()) == ["d", "dx", "extra"])
