"""C17 -- in-place updates, copies and views follow a fixed aliasing contract."""
import copy
import itertools

import numpy as np

from harness import common as C
from oracles import units as U

PROP = "C17"
FILES = ["src/osyris/core/array.py", "src/osyris/core/vector.py", "src/osyris/core/base.py",
         "src/osyris/core/datagroup.py", "src/osyris/core/dataset.py"]
FUNCTIONS = ["osyris.core.array.Array.__iadd__/__isub__/__imul__/__itruediv__", "Array._wrap_numpy (out= path)",
             "osyris.core.vector.Vector.__iadd__/__isub__/__imul__/__itruediv__", "Array.copy / Vector.copy",
             "Base.__copy__/__deepcopy__", "Datagroup.copy", "Dataset.copy", "Array.__getitem__ (views)"]
ASSUMPTIONS = ["in-place updates whose result numpy cannot cast into the target dtype (numpy raises UFuncTypeError) are outside the "
               "property's premise and are cut", "division by zero is cut",
               "a slice is a view of the *data*; its unit label is its own, so unit-changing updates (x *= <dimensional>) are "
               "checked on the object itself and on container aliases only"]
BOUNDS = {"quick": {"elements": "all symbolic", "ops": "+= -= *= /=", "targets": "Array 0-d/(2,), Vector nvec 1..3",
                    "rhs kinds": "Array/Vector, int, float, ndarray, Quantity", "dtype pairs": "f64,f32,i64,i32 x f64,i64 (numpy-accepted casts)",
                    "unit pairs": "equal, compatible-different, unrelated (for *=, /=), incompatible (for +=, -=)",
                    "interleavings": "all sequences of <= 2 operations from the 7-letter alphabet on an Array shared by two Datagroups, "
                                     "a slice view, a copy and a deepcopy"},
          "thorough": {"as": "quick, sequences of <= 3 operations, (2,2) shapes"}}
FLOOR = {"quick": 1500, "thorough": 6000}
SHADOW_EVERY = 1
LIMITS = {"quick": {"max_paths": 64, "budget_s": 120}, "thorough": {"max_paths": 64, "budget_s": 300}}

IOPS = {"iadd": "add", "isub": "sub", "imul": "mul", "idiv": "div"}
ALPHABET = ["iadd:a", "iadd:v", "iadd:c", "iadd:d", "imul:a", "setv", "recopy", "redeep"]


def configs(tier):
    out = []
    ups_add = [("m", "m"), ("m", "cm"), ("pc", "au"), ("m", "s"), ("dimensionless", "dimensionless")]
    ups_mul = [("m", "m"), ("m", "cm"), ("g", "s"), ("m", "dimensionless")]
    dtp = [("float64", "float64"), ("float32", "float32"), ("float32", "float64"), ("int64", "int64"), ("int32", "int32"),
           ("int64", "float64"), ("float64", "int64")]
    shapes = [[], [2]] + ([[2, 2]] if tier != "quick" else [])
    for op in IOPS:
        ups = ups_add if op in ("iadd", "isub") else ups_mul
        for (ua, ub), (dta, dtb), shape in itertools.product(ups, dtp, shapes):
            out.append(dict(kind="array", op=op, rhs="Array", ua=ua, ub=ub, dta=dta, dtb=dtb, shape=shape))
        for rhs in ("int", "float", "ndarray", "Quantity"):
            for ua, ub in ([("dimensionless", "dimensionless"), ("m", "cm")] if op in ("iadd", "isub") else
                           [("m", "dimensionless"), ("m", "cm")]):
                if rhs != "Quantity" and ub != "dimensionless":
                    continue
                for dta in ("float64", "float32", "int64"):
                    out.append(dict(kind="array", op=op, rhs=rhs, ua=ua, ub=ub, dta=dta,
                                    dtb=("int64" if rhs == "int" else "float64"), shape=[2]))
        for nvec in (1, 2, 3):
            for ua, ub in ups:
                for rhs in ("Vector", "Array", "float"):
                    if rhs == "float" and ub != "dimensionless":
                        continue
                    for shape in ([[2]] if tier == "quick" else [[], [2]]):
                        out.append(dict(kind="vector", op=op, rhs=rhs, nvec=nvec, ua=ua, ub=ub, shape=shape))
    # an Array on the left, a Vector on the right: the Array cannot hold the result; Python falls back to x = x op y, so the
    # name must end up bound to the Vector x op y (and not silently keep the old Array)
    for op in IOPS:
        for nvec in (2, 3):
            out.append(dict(kind="array-op-vector", op=op, nvec=nvec, ua="m", ub=("cm" if op in ("iadd", "isub") else "s")))
    # two successive in-place updates of a Vector held in two Datagroups (the second one changes the unit)
    for nvec in (1, 2, 3):
        for shape in ([], [2]):
            for first, second in (("iadd", "imul"), ("imul", "imul"), ("isub", "idiv"), ("imul", "iadd")):
                out.append(dict(kind="vector-seq", nvec=nvec, shape=shape, ops=[first, second]))
    # strided / reversed / column slices are views too
    for sl in ("::2", "::-1", "1::2", "col"):
        out.append(dict(kind="strided", sl=sl))
    for what in ("array", "vector"):
        for how in ("copy", "copy.copy", "deepcopy"):
            for shape in [[], [2]]:
                out.append(dict(kind="copies", what=what, how=how, shape=shape))
    for how in ("dg.copy", "dg.copy.copy", "dg.deepcopy", "ds.copy", "ds.deepcopy", "slice"):
        out.append(dict(kind="containers", how=how))
    n = 2 if tier == "quick" else 3
    for k in range(1, n + 1):
        for seq in itertools.product(ALPHABET, repeat=k):
            out.append(dict(kind="interleave", seq=list(seq)))
    return out


def _mk_rhs(m, cfg, shape, name="b"):
    import osyris
    from osyris import Array
    rhs, dtb, ub = cfg["rhs"], cfg.get("dtb", "float64"), cfg["ub"]
    if rhs == "Array":
        raw = m.array(name, shape, dtb)
        return Array(raw, unit=ub), m.vals(raw), raw
    if rhs in ("int", "float"):
        v = m.number(name + "_0", dtb)
        return v, [m.t(v)], None
    if rhs == "ndarray":
        raw = m.array(name, shape, dtb)
        return raw, m.vals(raw), raw
    raw = m.array(name, shape, dtb)
    return osyris.units._ureg.Quantity(raw, ub), m.vals(raw), raw


def _apply(op, x, y):
    if op == "iadd":
        x += y
    elif op == "isub":
        x -= y
    elif op == "imul":
        x *= y
    else:
        x /= y
    return x


def _expected(m, op, xv, yv, fa, fb):
    n = len(xv)
    ys = yv if len(yv) == n else yv * n
    ex, sc = [], []
    for x, y in zip(xv, ys):
        x, y = m.t(x) * fa, m.t(y) * fb
        ex.append({"iadd": lambda: x + y, "isub": lambda: x - y, "imul": lambda: x * y, "idiv": lambda: x / y}[op]())
        sc.append(m.abs(x) + m.abs(y) if op in ("iadd", "isub") else None)
    return ex, sc


def _check_updated(m, arr, ex, sc, dim, tag, what, tol=None):
    try:
        fr, dr = U.factor_dim(arr.unit)
    except U.UnknownUnit as e:
        m.fail(f"unknown unit {e}", key=f"unit:{tag}:{what}")
        return
    if not m.require(dr == tuple(dim), f"{what}: unit of x op y", key=f"unit:{tag}:{what}", info=str(arr.unit)):
        return
    rv = m.vals(arr._array)
    if len(rv) != len(ex):
        m.fail("size", key=f"shape:{tag}:{what}")
        return
    m.check(f"{what} shows the value of x op y", m.And([m.close(m.t(r) * fr, e, tol=tol, scale=s)
                                                        for r, e, s in zip(rv, ex, sc)]), key=f"value:{tag}:{what}")


def body(m, cfg):
    import osyris
    from osyris import Array, Vector, Datagroup, Dataset
    from pint.errors import DimensionalityError
    from symx.core import Abort
    kind = cfg["kind"]
    if kind == "array":
        op, ua, ub, dta, shape = cfg["op"], cfg["ua"], cfg["ub"], cfg["dta"], tuple(cfg["shape"])
        m.dtype_tol(dta, cfg.get("dtb"))
        tag = f"{op}:{cfg['rhs']}:{C.DT_SHORT[dta]}:{C.DT_SHORT[cfg['dtb']]}"
        fa, da = C.fd(ua)
        fb, db = C.fd(ub)
        x = Array(m.array("a", shape, dta), unit=ua)
        y, yv, yraw = _mk_rhs(m, cfg, shape)
        if op == "idiv":
            for t in yv:
                m.assume(m.Not(m.eq(t, 0)))
        xv = m.vals(x._array)
        ysnap = C.snapshot(m, y) if isinstance(y, Array) else (m.vals(yraw) if yraw is not None else None)
        dg1, dg2 = Datagroup(), Datagroup()
        dg1["p"] = x
        dg2["p"] = x
        view = x[0:1] if shape else None
        xid, bufid = id(x), id(x._array)
        xsnap = C.snapshot(m, x)
        compatible = da == db
        try:
            x = _apply(op, x, y)
        except DimensionalityError:
            ok = op in ("iadd", "isub") and not compatible and C.unchanged(m, dg1["p"], xsnap)
            m.require(ok, "raises only for incompatible +=/-= and leaves x unchanged", key=f"unexpected-raise:{tag}")
            return
        except TypeError as e:          # numpy's UFuncTypeError: result not castable into x's dtype
            if "Cannot cast ufunc" in str(e):
                raise Abort("cut: in-place result not representable in x's dtype (numpy refuses the cast)")
            raise
        if op in ("iadd", "isub") and not compatible:
            m.fail("in-place addition of incompatible dimensions did not raise", key=f"no-raise:{tag}")
            return
        m.require(id(x) == xid, "the Array updated in place is the same object", key=f"identity:{tag}")
        ex, sc = _expected(m, op, xv, yv, fa, fb)
        dim = {"iadd": da, "isub": da, "imul": U.dim_mul(da, db), "idiv": U.dim_mul(da, U.dim_inv(db))}[op]
        tol = C.tol_for(ua, ub)
        _check_updated(m, x, ex, sc, dim, tag, "x", tol)
        _check_updated(m, dg1["p"], ex, sc, dim, tag, "alias-in-datagroup-1", tol)
        _check_updated(m, dg2["p"], ex, sc, dim, tag, "alias-in-datagroup-2", tol)
        m.require(dg1["p"] is dg2["p"], "containers still share the object", key=f"alias-identity:{tag}")
        if view is not None:
            m.require(np.shares_memory(np.asarray(view._array), np.asarray(x._array)), "a slice taken before shares the data",
                      key=f"view-shares:{tag}")
            m.check("slice view shows the new data", m.And([m.close(p, q) for p, q in
                                                           zip(m.vals(view._array), m.vals(x._array)[:1])]),
                    key=f"view-value:{tag}")
        if isinstance(y, Array):
            m.require(C.unchanged(m, y, ysnap), "right operand untouched", key=f"rhs-changed:{tag}")
        elif yraw is not None:
            m.require(C.same_terms(m, m.vals(yraw), ysnap), "right operand untouched", key=f"rhs-changed:{tag}")
        return
    if kind == "vector":
        op, ua, ub, nvec, shape, rhs = cfg["op"], cfg["ua"], cfg["ub"], cfg["nvec"], tuple(cfg["shape"]), cfg["rhs"]
        tag = f"{op}:vec{nvec}:{rhs}"
        fa, da = C.fd(ua)
        fb, db = C.fd(ub)
        comps = [m.array("a" + "xyz"[i], shape, "float64") for i in range(nvec)]
        v = Vector(*comps, unit=ua)
        if rhs == "Vector":
            wc = [m.array("b" + "xyz"[i], shape, "float64") for i in range(nvec)]
            w = Vector(*wc, unit=ub)
            wv = [m.vals(c) for c in wc]
        elif rhs == "Array":
            wr = m.array("b", shape, "float64")
            w = Array(wr, unit=ub)
            wv = [m.vals(wr)] * nvec
        else:
            w = m.real("b_0")
            wv = [[m.t(w)]] * nvec
        if op == "idiv":
            for ws in wv:
                for t in ws:
                    m.assume(m.Not(m.eq(t, 0)))
        vv = [m.vals(c._array) for c in C.vcomps(v).values()]
        dg1, dg2 = Datagroup(), Datagroup()
        dg1["q"] = v
        dg2["q"] = v
        old = v
        compatible = da == db
        try:
            v = _apply(op, v, w)
        except DimensionalityError:
            m.require(op in ("iadd", "isub") and not compatible, "raises only for incompatible +=/-=",
                      key=f"unexpected-raise:{tag}")
            return
        if op in ("iadd", "isub") and not compatible:
            m.fail("in-place addition of incompatible dimensions did not raise", key=f"no-raise:{tag}")
            return
        if not m.require(isinstance(v, Vector) and v.nvec == nvec, "result is a Vector", key=f"type:{tag}"):
            return
        dim = {"iadd": da, "isub": da, "imul": U.dim_mul(da, db), "idiv": U.dim_mul(da, U.dim_inv(db))}[op]
        tol = C.tol_for(ua, ub)
        for i, c in enumerate("xyz"[:nvec]):
            ex, sc = _expected(m, op, vv[i], wv[i], fa, fb)
            _check_updated(m, getattr(v, c), ex, sc, dim, tag + ":" + c, "v", tol)
            _check_updated(m, getattr(old, c), ex, sc, dim, tag + ":" + c, "other-reference", tol)
            _check_updated(m, getattr(dg2["q"], c), ex, sc, dim, tag + ":" + c, "alias-in-datagroup", tol)
        if rhs == "Vector":
            for i, c in enumerate(C.vcomps(w).values()):
                m.require(C.same_terms(m, m.vals(c._array), wv[i]) and C.unit_dim_ok(c.unit, db),
                          "right operand untouched", key=f"rhs-changed:{tag}")
        return
    if kind == "array-op-vector":
        return _array_op_vector(m, cfg)
    if kind == "vector-seq":
        return _vector_seq(m, cfg)
    if kind == "strided":
        return _strided(m, cfg)
    if kind == "copies":
        return _copies(m, cfg)
    if kind == "containers":
        return _containers(m, cfg)
    if kind == "interleave":
        return _interleave(m, cfg)


def _array_op_vector(m, cfg):
    from osyris import Array, Vector
    from pint.errors import DimensionalityError
    op, nvec, ua, ub = cfg["op"], cfg["nvec"], cfg["ua"], cfg["ub"]
    tag = f"{op}:Array-target:Vector-rhs:n{nvec}"
    fa, da = C.fd(ua)
    fb, db = C.fd(ub)
    a = Array(m.array("a", (2,), "float64"), unit=ua)
    comps = [m.array("v" + c, (2,), "float64") for c in "xyz"[:nvec]]
    v = Vector(*comps, unit=ub)
    if op == "idiv":
        for c in comps:
            for t in m.vals(c):
                m.assume(m.Not(m.eq(t, 0)))
    av = m.vals(a._array)
    snap_a = C.snapshot(m, a)
    snaps_v = [C.snapshot(m, c) for c in C.vcomps(v).values()]
    try:
        r = _apply(op, a, v)
    except (TypeError, DimensionalityError):
        m.ok("refused")                      # a refusal is fine; a silent no-op is not
        return
    if not m.require(isinstance(r, Vector) and r.nvec == nvec, "x op= y with a Vector y leaves x bound to the Vector x op y", key=f"type:{tag}",
                     info=type(r).__name__):
        return
    dim = {"iadd": da, "isub": da, "imul": U.dim_mul(da, db), "idiv": U.dim_mul(da, U.dim_inv(db))}[op]
    for c, rc, vc in zip("xyz", C.vcomps(r).values(), comps):
        ex, sc = _expected(m, op, av, m.vals(vc), fa, fb)
        _check_updated(m, rc, ex, sc, dim, tag, "component " + c)
    m.require(all(C.unchanged(m, c, s_) for c, s_ in zip(C.vcomps(v).values(), snaps_v)), "y untouched", key=f"rhs-changed:{tag}")
    m.require(C.unchanged(m, a, snap_a), "the Array object itself keeps its old value (the result is a new Vector)", key=f"lhs-changed:{tag}")


def _vector_seq(m, cfg):
    """v op1= w1 ; v op2= w2 through one Datagroup: the Vector seen through the other Datagroup (and the original
    reference) must show the value AND unit of the result after every step."""
    from osyris import Array, Vector, Datagroup
    nvec, shape, ops = cfg["nvec"], tuple(cfg["shape"]), cfg["ops"]
    tag = f"vector-seq:{'-'.join(ops)}:n{nvec}:{C.shape_str(shape)}"
    comps = [m.array("a" + "xyz"[i], shape, "float64") for i in range(nvec)]
    v0 = Vector(*comps, unit="m")
    dg1, dg2 = Datagroup(), Datagroup()
    dg1["q"] = v0
    dg2["q"] = v0
    cur = [[m.t(t) for t in m.vals(c)] for c in comps]          # physical values in CGS per component
    fa = 100.0
    cur = [[x * fa for x in col] for col in cur]
    dim = (1, 0, 0, 0, 0)
    for step, op in enumerate(ops):
        if op in ("iadd", "isub"):
            w = Array(m.array(f"w{step}", shape, "float64"), unit=("cm" if dim == (1, 0, 0, 0, 0) else None))
            if dim != (1, 0, 0, 0, 0):
                from symx.core import Abort
                raise Abort("cut: addition after a unit change needs a matching operand (not generated)")
            wv = [m.t(t) * 1.0 for t in m.vals(w._array)]
            cur = [[(x + y) if op == "iadd" else (x - y) for x, y in zip(col, wv)] for col in cur]
        else:
            w = Array(m.array(f"w{step}", shape, "float64"), unit="s")
            wv = [m.t(t) for t in m.vals(w._array)]
            if op == "idiv":
                for t in wv:
                    m.assume(m.Not(m.eq(t, 0)))
            cur = [[(x * y) if op == "imul" else (x / y) for x, y in zip(col, wv)] for col in cur]
            dim = U.dim_mul(dim, (0, 0, 1, 0, 0)) if op == "imul" else U.dim_mul(dim, (0, 0, -1, 0, 0))
        if op == "iadd":
            dg1["q"] += w
        elif op == "isub":
            dg1["q"] -= w
        elif op == "imul":
            dg1["q"] *= w
        else:
            dg1["q"] /= w
        for who, vec in (("updated-reference", dg1["q"]), ("other-datagroup", dg2["q"]), ("original-reference", v0)):
            for i, c in enumerate("xyz"[:nvec]):
                sc = [m.abs(e) for e in cur[i]]
                _check_updated(m, getattr(vec, c), cur[i], sc, dim, f"{tag}:step{step + 1}:{c}", who)


def _strided(m, cfg):
    from osyris import Array
    sl = cfg["sl"]
    tag = f"strided:{sl}"
    if sl == "col":
        a = Array(m.array("a", (2, 2), "float64"), unit="m")
        s = a[:, 1]
        idx = [1, 3]
    else:
        a = Array(m.array("a", (4,), "float64"), unit="m")
        key = {"::2": slice(None, None, 2), "::-1": slice(None, None, -1), "1::2": slice(1, None, 2)}[sl]
        s = a[key]
        idx = list(range(4))[key]
    m.require(np.shares_memory(np.asarray(s._array), np.asarray(a._array)), "a strided / reversed / column slice is a view of the same data",
              key=f"view-shares:{tag}")
    before = [m.t(t) for t in m.vals(a._array)]
    k = Array(m.array("k", tuple(s.shape), "float64"), unit="m")
    kv = [m.t(t) for t in m.vals(k._array)]
    s += k
    after = [m.t(t) for t in m.vals(a._array)]
    fs = []
    for pos in range(len(before)):
        if pos in idx:
            fs.append(m.close(after[pos], before[pos] + kv[idx.index(pos)], scale=m.abs(before[pos]) + 1))
        else:
            fs.append(m.close(after[pos], before[pos], exact=True))
    m.check("an in-place update through the slice is seen in the Array (and only there)", m.And(fs), key=f"view-writes-through:{tag}")
    a *= 2.0
    m.check("an in-place update of the Array is seen through the slice",
            m.And([m.close(x, y, exact=True) for x, y in zip(m.vals(s._array), [m.vals(a._array)[i] for i in idx])]), key=f"view-reads-through:{tag}")


def _copy_of(obj, how):
    if how == "copy":
        return obj.copy()
    if how == "copy.copy":
        return copy.copy(obj)
    return copy.deepcopy(obj)


def _arrays_of(o):
    from osyris import Array
    return [o] if isinstance(o, Array) else list(C.vcomps(o).values())


def _copies(m, cfg):
    from osyris import Array, Vector
    what, how, shape = cfg["what"], cfg["how"], tuple(cfg["shape"])
    tag = f"{what}:{how}:{C.shape_str(shape)}"
    if what == "array":
        o = Array(m.array("a", shape, "float64"), unit="m", name="orig")
    else:
        o = Vector(*[m.array("a" + c, shape, "float64") for c in "xyz"], unit="m", name="orig")
    c = _copy_of(o, how)
    m.require(type(c) is type(o) and c is not o, "copy is a new object of the same type", key=f"type:{tag}")
    oa, ca = _arrays_of(o), _arrays_of(c)
    m.require(all(not np.shares_memory(np.asarray(p._array), np.asarray(q._array)) for p, q in zip(oa, ca)),
              "copy does not share memory with the original", key=f"shares-memory:{tag}")
    m.require(all(C.same_terms(m, m.vals(p._array), m.vals(q._array)) and str(p.unit) == str(q.unit) for p, q in zip(oa, ca)),
              "copy has the same values and unit", key=f"copy-equal:{tag}")
    m.require(c.name == o.name, "copy keeps the name", key=f"copy-name:{tag}")
    osnap = [C.snapshot(m, p) for p in oa]
    from osyris import Array as A
    k = A(m.array("k", shape, "float64"), unit="cm")
    c *= k                  # changes the copy's values and unit
    m.require(all(C.unchanged(m, p, s) for p, s in zip(oa, osnap)), "updating the copy leaves the original untouched",
              key=f"copy-to-original:{tag}")
    csnap = [C.snapshot(m, p) for p in _arrays_of(c)]
    o += A(m.array("j", shape, "float64"), unit="m")
    m.require(all(C.unchanged(m, p, s) for p, s in zip(_arrays_of(c), csnap)), "updating the original leaves the copy untouched",
              key=f"original-to-copy:{tag}")


def _containers(m, cfg):
    from osyris import Array, Vector, Datagroup, Dataset
    how = cfg["how"]
    tag = how
    a = Array(m.array("a", (2,), "float64"), unit="m")
    v = Vector(*[m.array("v" + c, (2,), "float64") for c in "xyz"], unit="cm")
    dg = Datagroup()
    dg["a"] = a
    dg["v"] = v
    ds = Dataset()
    ds["g"] = dg
    ds.meta["time"] = 1.0
    bump = Array(m.array("k", (2,), "float64"), unit="m")
    if how == "slice":
        s = a[0:1]
        m.require(np.shares_memory(np.asarray(s._array), np.asarray(a._array)), "a slice of an Array is a view", key="slice-view")
        before = m.vals(a._array)
        s += Array(m.array("j", (1,), "float64"), unit="m")
        jv = m.t(m.vals(s._array)[0])
        m.check("an in-place update of the slice is seen in the Array", m.close(m.vals(a._array)[0], jv), key="slice-writes-through")
        m.require(C.same_terms(m, m.vals(a._array)[1:], before[1:]), "rows outside the slice untouched", key="slice-others")
        return
    if how in ("dg.copy", "dg.copy.copy"):
        c = dg.copy() if how == "dg.copy" else copy.copy(dg)
        m.require(c is not dg and c["a"] is dg["a"] and c["v"] is dg["v"], "copy() of a Datagroup is shallow (shares members)",
                  key=f"shallow:{tag}")
        del c["a"]
        m.require("a" in dg, "removing a member from the copy does not affect the original", key=f"container-independent:{tag}")
        return
    if how == "ds.copy":
        c = ds.copy()
        m.require(c is not ds and c["g"] is ds["g"], "copy() of a Dataset is shallow", key=f"shallow:{tag}")
        m.require(c.meta == ds.meta and c.meta is not ds.meta, "meta copied", key=f"meta:{tag}")
        return
    c = copy.deepcopy(dg if how == "dg.deepcopy" else ds)
    g = c if how == "dg.deepcopy" else c["g"]
    m.require(g is not dg and g["a"] is not a and g["v"] is not v, "deepcopy creates new members", key=f"deep:{tag}")
    m.require(not np.shares_memory(np.asarray(g["a"]._array), np.asarray(a._array)), "no shared memory", key=f"shares-memory:{tag}")
    m.require(C.same_terms(m, m.vals(g["a"]._array), m.vals(a._array)) and str(g["a"].unit) == str(a.unit),
              "deepcopy has the same contents", key=f"copy-equal:{tag}")
    snap = C.snapshot(m, a)
    vs = [C.snapshot(m, x) for x in C.vcomps(v).values()]
    g["a"] *= bump
    g["v"] *= 2.0
    m.require(C.unchanged(m, a, snap) and all(C.unchanged(m, x, s) for x, s in zip(C.vcomps(v).values(), vs)),
              "updating the deep copy leaves the original untouched", key=f"copy-to-original:{tag}")
    gs = C.snapshot(m, g["a"])
    a += bump
    m.require(C.unchanged(m, g["a"], gs), "updating the original leaves the deep copy untouched", key=f"original-to-copy:{tag}")


def _interleave(m, cfg):
    """Reference model of the aliasing contract: a (shared by two Datagroups) and its slice view
    v = a[0:1] share storage; c = a.copy() and d = deepcopy(a) are independent snapshots."""
    from osyris import Array, Datagroup
    seq = cfg["seq"]
    tag = "seq" + str(len(seq))
    a = Array(m.array("a", (2,), "float64"), unit="m")
    dg1, dg2 = Datagroup(), Datagroup()
    dg1["a"] = a
    dg2["b"] = a
    v = a[0:1]
    c = a.copy()
    d = copy.deepcopy(a)
    # model: lists of physical-unit-free terms in metres (all updates are in metres / dimensionless)
    A_ = [m.t(x) for x in m.vals(a._array)]
    C_ = list(A_)
    D_ = list(A_)
    for i, step in enumerate(seq):
        y1 = Array(m.array(f"y{i}", (1,), "float64"), unit="m")
        y2 = Array(m.array(f"z{i}", (2,), "float64"), unit="cm")
        t1 = [m.t(x) for x in m.vals(y1._array)]
        t2 = [m.t(x) * 0.01 for x in m.vals(y2._array)]
        if step == "iadd:a":
            a += y2
            A_ = [p + q for p, q in zip(A_, t2)]
        elif step == "iadd:v":
            v += y1
            A_[0] = A_[0] + t1[0]
        elif step == "iadd:c":
            c += y2
            C_ = [p + q for p, q in zip(C_, t2)]
        elif step == "iadd:d":
            d += y2
            D_ = [p + q for p, q in zip(D_, t2)]
        elif step == "imul:a":
            k = m.real(f"k{i}")
            a *= k
            A_ = [p * m.t(k) for p in A_]
        elif step == "setv":
            s = m.real(f"s{i}")
            v.values[0] = s
            A_[0] = m.t(s)
        elif step == "recopy":
            c = a.copy()
            C_ = list(A_)
        elif step == "redeep":
            d = copy.deepcopy(a)
            D_ = list(A_)
    sc = None
    for name, obj, model in (("a", a, A_), ("dg1.a", dg1["a"], A_), ("dg2.b", dg2["b"], A_), ("copy", c, C_), ("deepcopy", d, D_)):
        m.require(str(obj.unit) == "meter", f"{name}: unit", key=f"interleave-unit:{tag}:{name}")
        m.check(f"{name} agrees with the aliasing model after {seq}",
                m.And([m.close(x, e, scale=m.abs(e) + 1) for x, e in zip(m.vals(obj._array), model)]),
                key=f"interleave:{tag}:{name}")
    m.check(f"view agrees with the aliasing model after {seq}", m.close(m.vals(v._array)[0], A_[0], scale=m.abs(A_[0]) + 1),
            key=f"interleave:{tag}:view")
    m.require(dg1["a"] is a and dg2["b"] is a, "containers still hold the same object", key=f"interleave-identity:{tag}")
