"""C14 -- particle and sink tables are loaded completely, typed and scaled correctly."""
import itertools
import os

import numpy as np

from harness import common as C
from harness import loader_common as LC
from harness import c01 as B
from oracles import units as U

PROP = "C14"
FILES = ["src/osyris/io/part.py", "src/osyris/io/sink.py", "src/osyris/io/utils.py", "src/osyris/io/loader.py", "src/osyris/core/datagroup.py"]
FUNCTIONS = ["osyris.io.part.PartReader.initialize/read_header", "osyris.io.sink.SinkReader.initialize", "osyris.io.loader.Loader.load",
             "osyris.io.utils.read_binary_data/skip_binary_line/make_vector_arrays", "osyris.core.datagroup.Datagroup.sortby"]
ASSUMPTIONS = ["particle counts per CPU are concrete (0, 1, 2); the lengths of the five skipped header records and all payloads are symbolic",
               "sink files: numpy.loadtxt is replaced by its documented contract (float array (nsink, ncol), or (ncol,) for a single data "
               "row) with symbolic entries; the two header lines are real text parsed by osyris itself (CSV tokenisation is numpy's C code)",
               "integer and byte columns hold values in [-1000, 1000] / [-100, 100]"]
BOUNDS = {"quick": {"particles": "ncpu 1-2, npart per cpu in {0,1,2}, ndim 1-3, descriptors mixing d/i/b in 3 orders, sortby on a float and on an int column",
                    "sinks": "nsink 1-2, empty file, missing file, code-unit and legacy bracket unit lines, ndim 2-3"},
          "thorough": {"as": "quick with 3 particles per cpu, 3 CPU files (4 count patterns), sortby on byte columns, 3 sinks"}}
FLOOR = {"quick": 600, "thorough": 5000}
SHADOW_EVERY = 1
LIMITS = {"quick": {"max_paths": 300, "budget_s": 200}, "thorough": {"max_paths": 2000, "budget_s": 600}}

PART_SETS = {
    "std": [("position_x", "d"), ("position_y", "d"), ("position_z", "d"), ("velocity_x", "d"), ("velocity_y", "d"), ("velocity_z", "d"),
            ("mass", "d"), ("identity", "i"), ("levelp", "i"), ("family", "b"), ("tag", "b")],
    "ints-first": [("identity", "i"), ("family", "b"), ("mass", "d"), ("position_x", "d"), ("position_y", "d"), ("position_z", "d"),
                   ("birth_time", "d")],
    "bytes-mid": [("mass", "d"), ("family", "b"), ("position_x", "d"), ("tag", "b"), ("position_y", "d"), ("position_z", "d"), ("identity", "i")],
}


ONLY = {"std": [["mass", "tag"], ["identity", "family"], ["mass", "levelp"]],
        "ints-first": [["mass", "birth_time"], ["family", "birth_time"]],
        "bytes-mid": [["mass", "position_x", "position_y", "position_z", "identity"], ["tag", "identity"]]}


def part_columns(name, ndim):
    comps = "xyz"[:ndim]
    return [(n, t) for n, t in PART_SETS[name] if not (n[-2:] in ("_x", "_y", "_z") and n[-1] not in comps)]


def configs(tier):
    out = []
    nmax = 2 if tier == "quick" else 3
    for ndim in (1, 2, 3):
        for pset in PART_SETS:
            for ncpu, nparts in [(1, [0]), (1, [2]), (2, [1, 2]), (2, [0, nmax]), (2, [2, 0])]:
                if ndim != 3 and pset != "std" and ncpu == 1:
                    continue
                out.append(dict(kind="part", ndim=ndim, pset=pset, ncpu=ncpu, npart=nparts, sort=None))
        out.append(dict(kind="part", ndim=ndim, pset="std", ncpu=2, npart=[2, 1], sort="mass"))
        out.append(dict(kind="part", ndim=ndim, pset="std", ncpu=2, npart=[1, 2], sort="identity"))
        # a subset of the descriptor's variables (skipped records of every on-disk type lie before, between and after the ones read)
        for pset, only in ONLY.items():
            for o in only:
                out.append(dict(kind="part", ndim=ndim, pset=pset, ncpu=2, npart=[2, 1], sort=None, only=o))
        out.append(dict(kind="part", ndim=ndim, pset="std", ncpu=2, npart=[1, 2], sort="mass", only=["mass", "tag"]))
    if tier != "quick":
        for ndim in (1, 3):
            for pset in PART_SETS:
                for nparts in ([1, 0, 3], [3, 2, 1], [0, 0, 2], [2, 2, 2]):
                    out.append(dict(kind="part", ndim=ndim, pset=pset, ncpu=3, npart=nparts, sort=None))
            out.append(dict(kind="part", ndim=ndim, pset="std", ncpu=3, npart=[2, 1, 1], sort="mass", _split=3))
            out.append(dict(kind="part", ndim=ndim, pset="std", ncpu=2, npart=[2, 1], sort="family"))
            out.append(dict(kind="part", ndim=ndim, pset="bytes-mid", ncpu=2, npart=[1, 2], sort="tag"))
    for ndim in (2, 3):
        for dialect in ("code", "legacy"):
            for nsink in ((1, 2) if tier == "quick" else (1, 2, 3)):
                out.append(dict(kind="sink", ndim=ndim, dialect=dialect, nsink=nsink))
    out.append(dict(kind="sink", ndim=3, dialect="code", nsink=-1))       # empty file
    out.append(dict(kind="sink", ndim=3, dialect="code", nsink=None))     # no file
    return out


def _base_output(m, ndim, ncpu):
    us = B.UNITSETS[0]
    fcfg = dict(ncpu=ncpu, ndim=ndim, levelmin=1, levelmax=2, nboundary=0, nxyz=(1, 1, 1), unit_d=us[0], unit_l=us[1], unit_t=us[2],
                boxlen=us[3], nout=1, bound_keys=[0] + [8 ** 3 * (i + 1) // ncpu for i in range(ncpu)])
    out = LC.Output(m, fcfg)
    out.new_oct(1, [0.5] * ndim, 0, "A")
    out.fill_values("hydro", LC.hydro_vars("two", ndim))
    return out


def body(m, cfg):
    if m.symbolic:
        return _body(m, cfg)
    try:
        _body(m, cfg)
    except Exception as e:
        m.failed.append("*")
        m.notes = f"{type(e).__name__}: {e}"
        return
    if m.failed:
        m.notes = list(m.failed)
        m.failed.append("*")


def _body(m, cfg):
    import osyris
    from symx import install
    ndim = cfg["ndim"]
    kind = cfg["kind"]
    out = _base_output(m, ndim, cfg.get("ncpu", 1))
    try:
        if kind == "part":
            cols = part_columns(cfg["pset"], ndim)
            out.add_particles(cols, cfg["npart"])
        out.build(ghosts="zero")
        if kind == "part":
            out.build_particles()
        else:
            names = ["id", "msink", "x", "y"] + (["z"] if ndim == 3 else []) + ["vx", "vy"] + (["vz"] if ndim == 3 else []) + ["tform", "level"]
            if cfg["dialect"] == "code":
                unit_of = {"id": "1", "msink": "m", "x": "l", "y": "l", "z": "l", "vx": "l t**-1", "vy": "l t**-1", "vz": "l t**-1",
                           "tform": "t", "level": "1"}
            else:
                unit_of = {"id": "[1]", "msink": "[g]", "x": "[cm]", "y": "[cm]", "z": "[cm]", "vx": "[cm/s]", "vy": "[cm/s]",
                           "vz": "[cm/s]", "tform": "[yr]", "level": "[1]"}
            out.add_sinks(names, [unit_of[n] for n in names], cfg["nsink"])
        saved = LC.install_shims(out) if m.symbolic else None
        S = install.mod("osyris.io.sink")
        old_np = S.np
        if m.symbolic and kind == "sink":
            class _NP:
                def __getattr__(self_, k):
                    return getattr(old_np, k)
            stub = _NP()
            stub.loadtxt = out.sink_loadtxt(np.loadtxt)
            S.np = stub
        try:
            with LC.quiet():
                ds = osyris.RamsesDataset(1, path=out.root)
                kw = {}
                if cfg.get("sort"):
                    kw["sortby"] = {"part": cfg["sort"]}
                if cfg.get("only"):
                    kw["select"] = {"part": [n for n in cfg["only"] if not (n[-2:] in ("_x", "_y", "_z") and n[-1] not in "xyz"[:ndim])]}
                ds.load(**kw)
        finally:
            S.np = old_np
            if saved is not None:
                LC.remove_shims(saved)
        if kind == "part":
            _check_part(m, cfg, out, ds)
        else:
            _check_sink(m, cfg, out, ds)
    finally:
        out.cleanup()


def _column(group, name, ndim):
    arr, how = B.loaded_column(group, name, ndim)
    return arr


def _check_part(m, cfg, out, ds):
    ndim = cfg["ndim"]
    tag = f"part:{ndim}d:{cfg['pset']}" + (":sort-" + cfg["sort"] if cfg.get("sort") else "") + (":only-" + "+".join(cfg["only"]) if cfg.get("only") else "")
    total = sum(cfg["npart"])
    uf = LC.unit_factors(out.cfg)
    m.require(int(ds.meta["nparticles"]) == total, "meta['nparticles'] is the number of particles in the files read", key=f"nparticles:{tag}")
    if total == 0:
        ok = "part" not in ds or all(tuple(ds["part"][k].shape) == (0,) for k in ds["part"].keys())
        m.require(ok, "no particles: no rows in the particle group", key=f"empty:{tag}")
        return
    if not m.require("part" in ds, "particle group present", key=f"missing:{tag}"):
        return
    g = ds["part"]
    cols = [c for c in out.part_columns if not cfg.get("only") or c[0] in cfg["only"]]
    # expected rows: concatenation over cpus
    expected = {name: [v for icpu in range(len(cfg["npart"])) for v in out.part_vals[(icpu, name)]] for name, _ in cols}
    order = list(range(total))
    if cfg.get("sort"):
        key = cfg["sort"]
        kt = [m.t(v) for v in expected[key]]
        # the order osyris chose is read from an unsorted provenance column: mass values are distinct
        prov = "mass" if key != "mass" else "identity"
    fs = []
    perm = None
    for name, typ in cols:
        arr = _column(g, name, ndim)
        if not m.require(arr is not None, f"column {name} present", key=f"column-missing:{tag}", info=name):
            continue
        m.require(tuple(arr.shape) == (total,), "one row per particle", key=f"rows:{tag}")
        cls = {"position_x": "length", "position_y": "length", "position_z": "length", "velocity_x": "velocity", "velocity_y": "velocity",
               "velocity_z": "velocity", "mass": "mass"}.get(name, "none")
        f_or, d_or = uf[cls]
        f_l, d_l = U.factor_dim(arr.unit)
        m.require(tuple(d_l) == tuple(d_or), f"{name} labelled with the unit of its class ({cls})", key=f"unit:{tag}:{cls}", info=str(arr.unit))
        got = m.vals(arr._array)
        if len(got) != total:
            continue
        if cfg.get("sort"):
            if perm is None:
                # permutation from the sort key column itself: find a permutation consistent on this path
                keyarr = _column(g, cfg["sort"], ndim)
                kgot = m.vals(keyarr._array)
                fk = U.factor_dim(keyarr.unit)[0]
                fko = uf[{"mass": "mass"}.get(cfg["sort"], "none")][0]
                m.check("the sort key column is non-decreasing", m.And([m.le(kgot[i], kgot[i + 1]) for i in range(total - 1)]), key=f"sorted:{tag}")
                perm = _find_perm(m, kgot, [m.t(v) * fko / fk for v in expected[cfg["sort"]]])
                if not m.require(perm is not None, "sorted key column is a permutation of the stored keys", key=f"sorted:{tag}"):
                    return
            exp = [expected[name][j] for j in perm]
        else:
            exp = expected[name]
        fs += [m.close(m.t(a) * f_l, m.t(e) * f_or) for a, e in zip(got, exp)]
        kind_ = np.dtype(arr.dtype).kind
        m.require((kind_ == "f") if typ == "d" or cls != "none" else kind_ in "iuf", f"{name}: numeric column", key=f"dtype:{tag}")
    m.check("every column is the concatenation over CPU files of the stored values times its unit factor, rows aligned", m.And(fs),
            key=f"values:{tag}")
    if ndim > 1 and (not cfg.get("only") or "position_x" in cfg["only"]):
        m.require("position" in g and C.is_vec(g["position"]) and g["position"].nvec == ndim, "positions merged into a Vector",
                  key=f"vector:{tag}")


def _find_perm(m, got, expected):
    """A permutation p with got[i] == expected[p[i]] decided on this path (ties: any consistent choice)."""
    n = len(got)
    used, perm = set(), []
    for i in range(n):
        hit = None
        for j in range(n):
            if j in used:
                continue
            if m.entailed(m.close(got[i], expected[j])) if m.symbolic else abs(got[i] - expected[j]) <= 1e-9 * max(abs(got[i]), abs(expected[j]), 1e-300):
                hit = j
                break
        if hit is None:
            return None
        used.add(hit)
        perm.append(hit)
    return perm


def _check_sink(m, cfg, out, ds):
    ndim, nsink = cfg["ndim"], cfg["nsink"]
    tag = f"sink:{ndim}d:{cfg['dialect']}"
    if nsink is None:
        m.require("sink" not in ds, "no sink file: no sink group", key=f"missing-file:{tag}")
        return
    if nsink < 0:
        m.require("sink" in ds and len(ds["sink"]) == 0, "empty sink file: empty sink group", key=f"empty-file:{tag}")
        return
    if not m.require("sink" in ds, "sink group present", key=f"missing:{tag}"):
        return
    g = ds["sink"]
    uf = LC.unit_factors(out.cfg)
    yr = 365.25 * 86400.0
    if cfg["dialect"] == "code":
        exp = {"id": ("none", 1.0), "msink": ("mass", uf["mass"][0]), "x": ("length", uf["length"][0]), "y": ("length", uf["length"][0]),
               "z": ("length", uf["length"][0]), "vx": ("velocity", uf["velocity"][0]), "vy": ("velocity", uf["velocity"][0]),
               "vz": ("velocity", uf["velocity"][0]), "tform": ("time", uf["time"][0]), "level": ("none", 1.0)}
    else:
        exp = {"id": ("none", 1.0), "msink": ("mass", 1.0), "x": ("length", 1.0), "y": ("length", 1.0), "z": ("length", 1.0),
               "vx": ("velocity", 1.0), "vy": ("velocity", 1.0), "vz": ("velocity", 1.0), "tform": ("time", yr), "level": ("none", 1.0)}
    fs = []
    for ci, name in enumerate(out.sink_columns):
        if name in ("x", "y", "z") and ndim == 3 or (ndim == 2 and name in ("x", "y")):
            arr = getattr(g["position"], name) if "position" in g and C.is_vec(g["position"]) else (g[name] if name in g else None)
        elif name in ("vx", "vy", "vz"):
            arr = getattr(g["v"], name[1]) if "v" in g and C.is_vec(g["v"]) else (g[name] if name in g else None)
        else:
            arr = g[name] if name in g else None
        if not m.require(arr is not None, f"sink column {name} present", key=f"column-missing:{tag}", info=name):
            continue
        cls, f_or = exp[name]
        f_l, d_l = U.factor_dim(arr.unit)
        m.require(tuple(d_l) == tuple(uf[cls][1]), f"{name} labelled with the unit of its class ({cls})", key=f"unit:{tag}:{cls}", info=str(arr.unit))
        got = m.vals(arr._array)
        if not m.require(len(got) == nsink, "one row per sink", key=f"rows:{tag}"):
            continue
        fs += [m.close(m.t(a) * f_l, m.t(out.sink_vals[r][ci]) * f_or) for r, a in enumerate(got)]
    m.check("every sink column equals the file's number times the unit expression of the unit line", m.And(fs), key=f"values:{tag}")
    m.require("position" in g and C.is_vec(g["position"]) and g["position"].nvec == ndim, "x,y,z merged into a position Vector",
              key=f"vector:{tag}")
