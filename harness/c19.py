"""C19 -- plot calls do not modify their inputs; per-layer options override call options.

Precedence: CrossHair contracts on parse_layer / Layer.update / Layer.copy (harness/ch_c19.py).
Non-modification and repeatability: the real map(..., plot=False) and histogram2d(...,
plot=False) run on symbolic data; every argument object is snapshotted (terms, units,
names, option fields, dict contents, identities) before and after, the call is repeated
with the same argument objects and must return term-identical data, and the options
reported in the returned Plot must follow the precedence rule."""
import os

import numpy as np

from harness import common as C
from harness import c03 as MAPH

PROP = "C19"
FILES = ["src/osyris/plot/parser.py", "src/osyris/core/layer.py", "src/osyris/plot/map.py", "src/osyris/plot/histogram2d.py",
         "src/osyris/plot/histogram1d.py", "src/osyris/plot/scatter.py", "src/osyris/plot/plot.py", "src/osyris/plot/render.py"]
FUNCTIONS = ["osyris.plot.histogram1d.histogram1d", "osyris.plot.scatter.scatter", "osyris.plot.plot.plot", "osyris.plot.render.render (ax given)",
             "osyris.plot.parser.parse_layer / get_norm", "osyris.core.layer.Layer.__init__/copy/update",
             "osyris.plot.map.map (plot=False)", "osyris.plot.histogram2d.histogram2d (plot=False)"]
ASSUMPTIONS = ["map and histogram2d are run with plot=False; histogram1d, scatter and plot are run with a RECORDING axes object passed through "
               "their public ax= argument, so that what they hand to matplotlib is observed but no matplotlib code runs: the drawing itself, "
               "every plot=True path of map/histogram2d, scatter with Array-valued sizes (matplotlib patches) and plot() given a dict are NOT covered",
               "option values are opaque to the code (only tested for None): ints/strs stand in for every option type in the contracts"]
BOUNDS = {"quick": {"precedence": "CrossHair: each of 8 options symbolic at layer and call level (+ a second option), all-set/none-set, "
                                  "and all 256 set/unset masks; Layer.update; Layer.copy independence",
                    "map": "8-cell mesh, symbolic values, thin and thick, resolution int / dict / partial dict, 2 layers sharing option objects, called twice",
                    "histogram2d": "2 symbolic points, 1-2 layers, called twice",
                    "norm instance": "a matplotlib Normalize object as the norm option at call / layer level together with vmin/vmax (map, histogram2d)",
                    "histogram1d / scatter / plot": "3 symbolic points; bins int / edges, weights and extra options at layer / call level; colour none/str/Array, "
                                                    "size none/float; plot forms x-y, y only, two layers"},
          "thorough": {"as": "quick plus every resolution form x option placement for map, log-x histogram1d with every option placement, "
                             "one-layer histogram2d, thick maps with computed orientations and norm instances"}}
FLOOR = {"quick": 80, "thorough": 120}
SHADOW_EVERY = 1
LIMITS = {"quick": {"max_paths": 400, "budget_s": 200}, "thorough": {"max_paths": 400, "budget_s": 200}}
STUBS = MAPH.STUBS


def EXTRA_STUBS():
    from symx import install, core
    PU = install.mod("osyris.plot.utils")
    return {"osyris.plot.utils": dict(C.njit_helpers_as_python("osyris.plot.utils", skip=("evaluate_on_grid", "hist2d")),
                                      prange=core.sym_range),
            "osyris.plot.histogram2d": {"hist2d": PU.hist2d.py_func},
            "osyris.plot.map": {"evaluate_on_grid": PU.evaluate_on_grid.py_func}}


def configs(tier):
    out = []
    for res in ("int", "dict", "partial", "none"):
        for thick in (False, True):
            for opts in ("layer", "call", "both", "neither"):
                if tier == "quick" and res in ("int", "none") and opts not in ("both",):
                    continue
                out.append(dict(kind="map", res=res, thick=thick, opts=opts))
    for opts in ("layer", "call", "both", "neither"):
        out.append(dict(kind="hist2d", opts=opts, nlayers=2))
    out.append(dict(kind="hist2d", opts="both", nlayers=0))
    # a matplotlib norm INSTANCE given as the norm option (at call level: shared by the layers; or stored on a Layer),
    # together with vmin / vmax: the caller's object must come back untouched
    # orientation computed from the data ('top' / 'side') with a non-zero origin: the positions must not be shifted in place
    for dirn in ("top", "side"):
        out.append(dict(kind="map", res="dict", thick=False, opts="both", direction=dirn))
    # orientation given as an OBJECT (a Vector of unit and of non-unit length, a VectorBasis): it is an input like any other
    for dirn in ("vector-unit", "vector", "basis"):
        out.append(dict(kind="map", res="dict", thick=False, opts="both", direction=dirn))
    for where in ("call", "layer"):
        out.append(dict(kind="hist2d", opts="both", nlayers=2, normobj=where))
        out.append(dict(kind="map", res="dict", thick=False, opts="both", normobj=where))
    # histogram1d / scatter / plot: given a RECORDING axes object through their public `ax=` argument, so that no
    # matplotlib code runs (the drawing itself is outside the claim) while everything osyris does to its inputs is observed
    for opts in ("layer", "call", "both", "neither"):
        for bins in ("int", "edges"):
            out.append(dict(kind="hist1d", opts=opts, bins=bins, logx=False))
    out.append(dict(kind="hist1d", opts="both", bins="int", logx=True))
    for first in ("int", "edges"):
        for call in ("none", "int", "edges"):
            out.append(dict(kind="hist1d-two", first=first, call=call))
    if tier != "quick":
        for opts in ("layer", "call", "neither"):
            for bins in ("int", "edges"):
                out.append(dict(kind="hist1d", opts=opts, bins=bins, logx=True))
        for opts in ("layer", "call", "both", "neither"):
            out.append(dict(kind="hist2d", opts=opts, nlayers=1))
        for dirn in ("top", "side"):
            out.append(dict(kind="map", res="dict", thick=True, opts="both", direction=dirn))
        for where in ("call", "layer"):
            out.append(dict(kind="map", res="int", thick=True, opts="both", normobj=where))
    for color in ("none", "str", "array"):
        for size in ("none", "float"):          # Array sizes are drawn as matplotlib patches (real matplotlib objects): not covered
            out.append(dict(kind="scatter", color=color, size=size))
    for form in ("x-y", "y-only", "two-layers", "dict"):
        out.append(dict(kind="plot1d", form=form))
    return out


def snap_array(m, a):
    comps = list(C.vcomps(a).values()) if C.is_vec(a) else [a]
    return (id(a), a.name, str(a.unit), [m.vals(c._array) for c in comps], [id(c._array) for c in comps])


def same_array(m, a, s):
    comps = list(C.vcomps(a).values()) if C.is_vec(a) else [a]
    return id(a) == s[0] and a.name == s[1] and str(a.unit) == s[2] and len(comps) == len(s[3]) and \
        all(C.same_terms(m, m.vals(c._array), t) for c, t in zip(comps, s[3])) and [id(c._array) for c in comps] == s[4]


def snap_layer(m, l):
    return dict(id=id(l), mode=l.mode, operation=l.operation, norm=l.norm, vmin=l.vmin, vmax=l.vmax, bins=l.bins,
                weights=l.weights, kwargs=dict(l.kwargs), kwargs_id=id(l.kwargs), keys=list(l.arrays.keys()),
                arrays_id=id(l.arrays), members={k: id(v) for k, v in l.arrays.items()}, key=l.key)


def _same(a, b):
    """Equality of option values that may be arrays (bin edges) or arbitrary objects (a norm instance: identity)."""
    if a is b:
        return True
    if isinstance(a, np.ndarray) or isinstance(b, np.ndarray):
        return isinstance(a, np.ndarray) and isinstance(b, np.ndarray) and a.shape == b.shape and bool(np.array_equal(a, b))
    try:
        return bool(a == b)
    except Exception:
        return False


def same_layer(l, s):
    return (id(l) == s["id"] and l.mode == s["mode"] and l.operation == s["operation"] and _same(l.norm, s["norm"]) and _same(l.vmin, s["vmin"])
            and _same(l.vmax, s["vmax"]) and _same(l.bins, s["bins"]) and _same(l.weights, s["weights"])
            and l.kwargs.keys() == s["kwargs"].keys() and all(_same(l.kwargs[k], s["kwargs"][k]) for k in l.kwargs)
            and id(l.kwargs) == s["kwargs_id"] and list(l.arrays.keys()) == s["keys"] and id(l.arrays) == s["arrays_id"]
            and {k: id(v) for k, v in l.arrays.items()} == s["members"] and l.key == s["key"])


def layer_terms(m, plot):
    out = []
    for lay in plot.layers:
        d = lay["data"]
        from symx.arr import raw
        D = np.asarray(d.data if not hasattr(d.data, "_ld") else raw(d.data), dtype=object)
        M = np.broadcast_to(np.asarray(d.mask, dtype=bool), D.shape)
        out.append(([None if mk else m.t(v) for v, mk in zip(D.ravel(), M.ravel())], str(lay["unit"]), lay["name"], lay["mode"]))
    return out


def _repeat(m, p1, p2, tag):
    t1, t2 = layer_terms(m, p1), layer_terms(m, p2)
    ok = len(t1) == len(t2) and all(a[1:] == b[1:] and len(a[0]) == len(b[0]) and
                                    all((u is None) == (v is None) for u, v in zip(a[0], b[0])) for a, b in zip(t1, t2))
    if not m.require(ok, "calling again returns layers of the same shape, unit, name, mode and mask", key=f"repeat:{tag}"):
        return
    fs = [m.close(u, v, exact=True) for a, b in zip(t1, t2) for u, v in zip(a[0], b[0]) if u is not None]
    fs += [m.close(u, v, exact=True) for u, v in zip(m.vals(p1.x), m.vals(p2.x))] + [m.close(u, v, exact=True) for u, v in zip(m.vals(p1.y), m.vals(p2.y))]
    m.check("calling again with the same argument objects returns the same data", m.And(fs), key=f"repeat:{tag}")


def body(m, cfg):
    if cfg["kind"] == "map":
        return _map(m, cfg)
    if cfg["kind"] == "hist1d":
        return _hist1d(m, cfg)
    if cfg["kind"] == "hist1d-two":
        return _hist1d_two(m, cfg)
    if cfg["kind"] == "scatter":
        return _scatter(m, cfg)
    if cfg["kind"] == "plot1d":
        return _plot1d(m, cfg)
    return _hist(m, cfg)


class FakeAxes:
    """Stands in for a matplotlib Axes (passed through the public ax= argument): records every call."""

    def __init__(self):
        self.calls = []

    def get_figure(self):
        return FakeFigure()

    def hist(self, x, bins=None, weights=None, **kw):
        self.calls.append(("hist", x, bins, weights, kw))
        nb = len(bins) - 1 if not isinstance(bins, int) else bins
        return np.zeros(nb), bins, None

    def get_xlim(self):
        return (0.0, 1.0)

    def get_ylim(self):
        return (0.0, 1.0)

    def __getattr__(self, name):
        def rec(*a, **k):
            self.calls.append((name, a, k))
            return None
        return rec


class FakeFigure:
    def savefig(self, *a, **k):
        raise AssertionError("no file requested")


def _hist1d_two(m, cfg):
    """Two layers in one histogram1d call: the first sets its own bins, the second leaves them unset and must get the
    call-level value (or the function's default), not the first layer's."""
    import osyris
    from osyris import Array
    from osyris.core.layer import Layer
    first, call = cfg["first"], cfg["call"]
    tag = f"hist1d-two:{first}:{call}"
    x1 = Array(m.array("x", (3,), "float64"), unit="cm", name="xs")
    x2 = Array(m.array("z", (3,), "float64"), unit="cm", name="zs")
    edges1 = np.array([0.0, 1.0, 2.5, 4.0])
    edges2 = np.array([0.0, 2.0, 4.0, 6.0, 8.0])
    l1 = Layer(x1, bins=(2 if first == "int" else edges1))
    l2 = Layer(x2)
    kw = {} if call == "none" else {"bins": (3 if call == "int" else edges2)}
    ax = FakeAxes()
    osyris.histogram1d(l1, l2, ax=ax, **kw)
    hist = [c for c in ax.calls if c[0] == "hist"]
    if not m.require(len(hist) == 2, "one histogram drawn per layer", key=f"calls:{tag}"):
        return
    nb1 = len(m.vals(hist[0][2])) - 1
    nb2 = len(m.vals(hist[1][2])) - 1
    m.require(nb1 == (2 if first == "int" else 3), "the first layer uses its own bins", key=f"precedence-bins:{tag}", info=nb1)
    want2 = {"none": 50, "int": 3, "edges": 4}[call]
    m.require(nb2 == want2, "a layer that leaves bins unset gets the call-level bins (or the default), not another layer's",
              key=f"precedence-unset:{tag}", info={"got": nb2, "want": want2})
    if call == "edges" and nb2 == want2:
        m.require(hist[1][2] is kw["bins"] or np.array_equal(np.asarray(hist[1][2], dtype=float), edges2), "call-level bin edges used as given",
                  key=f"precedence-unset:{tag}")
    m.check("each layer histograms its own data", m.And(m.all_close(m.vals(hist[0][1]), m.vals(x1._array)),
                                                        m.all_close(m.vals(hist[1][1]), m.vals(x2._array))), key=f"data:{tag}")


def _hist1d(m, cfg):
    import osyris
    from osyris import Array
    from osyris.core.layer import Layer
    opts, bins, logx = cfg["opts"], cfg["bins"], cfg["logx"]
    tag = f"hist1d:{opts}:{bins}" + (":log" if logx else "")
    xr = m.array("x", (3,), "float64")
    if logx:
        for t in m.vals(xr):
            m.assume(m.gt(t, 0))
    x = Array(xr, unit="cm", name="xs")
    w_layer = Array(m.array("wl", (3,), "float64"), unit="g", name="wl")
    w_call = Array(m.array("wc", (3,), "float64"), unit="g", name="wc")
    edges = np.array([0.0, 1.0, 2.5, 4.0])
    lb = (2 if bins == "int" else edges)
    cb = (3 if bins == "int" else np.array([0.0, 2.0, 4.0]))
    lopt = dict(bins=lb, weights=w_layer, alpha=0.5) if opts in ("layer", "both") else {}
    copt = dict(bins=cb, weights=w_call, color="k") if opts in ("call", "both") else {}
    lay = Layer(x, **lopt)
    arrs = [x, w_layer, w_call]
    snaps = [snap_array(m, a) for a in arrs]
    ls = snap_layer(m, lay)
    edges_before = edges.copy()
    results = []
    for rep in range(2):
        ax = FakeAxes()
        try:
            p = osyris.histogram1d(lay, logx=logx, ax=ax, **copt)
        except Exception as e:
            if opts == "neither" and isinstance(e, TypeError):
                # no bins anywhere: histogram1d's own default (bins=50) applies; with neither level set the call default is used
                raise
            raise
        results.append((ax, p))
    ax, p = results[0]
    m.require(all(same_array(m, a, s) for a, s in zip(arrs, snaps)) and same_layer(lay, ls) and np.array_equal(edges, edges_before),
              "histogram1d does not modify the Arrays, the Layer, its option dict or the bin edges it is given", key=f"modified:{tag}")
    hist = [c for c in ax.calls if c[0] == "hist"]
    if not m.require(len(hist) == 1, "one histogram drawn per layer", key=f"calls:{tag}"):
        return
    _, hx, hb, hw, hk = hist[0]
    want_w = w_layer if opts in ("layer", "both") else (w_call if opts == "call" else None)
    want_b = lb if opts in ("layer", "both") else (cb if opts == "call" else 50)
    xs = [m.t(t) for t in m.vals(xr)]
    if logx:
        from symx import core
        xs_l = xs
    m.check("the values histogrammed are the layer's data", m.all_close(m.vals(hx), m.vals(xr)), key=f"data:{tag}")
    if want_w is None:
        m.require(hw is None, "no weights unless given", key=f"precedence-weights:{tag}")
    else:
        m.require(hw is not None, "weights passed on", key=f"precedence-weights:{tag}")
        if hw is not None:
            m.check("layer-level weights override call-level weights", m.all_close(m.vals(hw), m.vals(want_w._array)),
                    key=f"precedence-weights:{tag}")
    if isinstance(want_b, int) and not logx:
        lo, hi = xs[0], xs[0]
        for v in xs[1:]:
            lo = MAPH._ite(m, v < lo, v, lo)
            hi = MAPH._ite(m, v > hi, v, hi)
        want_edges = [lo + (hi - lo) * (k / want_b) for k in range(want_b + 1)]
        ok = len(m.vals(hb)) == want_b + 1
        m.require(ok, "the number of bins follows the precedence rule", key=f"precedence-bins:{tag}", info={"got": len(m.vals(hb)) - 1, "want": want_b})
        if ok:
            m.check("integer bins: evenly spaced edges over the finite data range",
                    m.And([m.close(a, b, scale=m.abs(lo) + m.abs(hi)) for a, b in zip(m.vals(hb), want_edges)]), key=f"edges:{tag}")
    elif not isinstance(want_b, int):
        m.require(np.array_equal(np.asarray(hb, dtype=float), np.asarray(want_b, dtype=float)), "explicit bin edges are used as given; layer-level bins win",
                  key=f"precedence-bins:{tag}")
    else:
        m.require(len(m.vals(hb)) == want_b + 1, "the number of bins follows the precedence rule", key=f"precedence-bins:{tag}")
    m.require(hk.get("alpha") == lopt.get("alpha") and hk.get("color") == copt.get("color"), "extra keyword options merged",
              key=f"precedence-extra:{tag}")
    a2, p2 = results[1]
    h2 = [c for c in a2.calls if c[0] == "hist"][0]
    m.check("calling again with the same arguments draws the same data",
            m.And([m.close(u, v, exact=True) for u, v in zip(m.vals(hx), m.vals(h2[1]))] +
                  [m.close(u, v, exact=True) for u, v in zip(m.vals(hb), m.vals(h2[2]))]), key=f"repeat:{tag}")


def _scatter(m, cfg):
    import osyris
    from osyris import Array
    color, size = cfg["color"], cfg["size"]
    tag = f"scatter:{color}:{size}"
    x = Array(m.array("x", (2,), "float64"), unit="cm", name="xs")
    y = Array(m.array("y", (2,), "float64"), unit="cm", name="ys")
    carr = Array(m.array("c", (2,), "float64"), unit="K", name="temp")
    sarr = Array(m.array("s", (2,), "float64"), name="sz")
    kw = dict(cbar=False)
    if color == "str":
        kw["color"] = "red"
    elif color == "array":
        kw["color"] = carr
    if size == "float":
        kw["size"] = 3.0
    elif size == "array":
        kw["size"] = sarr
    arrs = [x, y, carr, sarr]
    snaps = [snap_array(m, a) for a in arrs]
    kw_before = dict(kw)
    res = []
    for rep in range(2):
        ax = FakeAxes()
        p = osyris.scatter(x, y, ax=ax, **kw)
        res.append((ax, p))
    ax, p = res[0]
    m.require(all(same_array(m, a, s) for a, s in zip(arrs, snaps)) and kw == kw_before, "scatter does not modify its inputs", key=f"modified:{tag}")
    sc = [c for c in ax.calls if c[0] == "scatter"]
    if size == "array":
        # dimensionless Array sizes are drawn as patches by real matplotlib: only the non-modification is claimed here
        return
    if not m.require(len(sc) == 1, "one scatter call", key=f"calls:{tag}"):
        return
    _, a, k = sc[0]
    m.check("the points drawn are the x and y values", m.And(m.all_close(m.vals(a[0]), m.vals(x._array)), m.all_close(m.vals(a[1]), m.vals(y._array))),
            key=f"data:{tag}")
    if color == "array":
        m.check("colour values are the colour Array's values", m.all_close(m.vals(k["c"]), m.vals(carr._array)), key=f"colour:{tag}")
        m.require(str(p.layers["unit"]) == "kelvin" and p.layers["name"] == "temp", "colour unit and name reported", key=f"colour-unit:{tag}")
    elif color == "str":
        m.require(k["c"] == "red", "colour string passed on", key=f"colour:{tag}")
    if size == "float":
        m.require(k["s"] == 3.0, "size passed on", key=f"size:{tag}")
    a2 = [c for c in res[1][0].calls if c[0] == "scatter"][0][1]
    m.check("calling again draws the same data", m.And([m.close(u, v, exact=True) for u, v in zip(m.vals(a[0]) + m.vals(a[1]), m.vals(a2[0]) + m.vals(a2[1]))]),
            key=f"repeat:{tag}")


def _plot1d(m, cfg):
    import osyris
    from osyris import Array
    form = cfg["form"]
    tag = f"plot:{form}"
    x = Array(m.array("x", (3,), "float64"), unit="cm", name="xs")
    y1 = Array(m.array("y", (3,), "float64"), unit="g", name="y1")
    y2 = Array(m.array("z", (3,), "float64"), unit="g", name="y2")
    arrs = [x, y1, y2]
    snaps = [snap_array(m, a) for a in arrs]
    d = {"x": x, "y": y1}
    d_before = dict(d)
    ax = FakeAxes()
    if form == "x-y":
        p = osyris.plot(x, y1, ax=ax, color="k")
        want = [(x, y1)]
    elif form == "y-only":
        p = osyris.plot(y1, ax=ax)
        want = [(None, y1)]
    elif form == "two-layers":
        p = osyris.plot(x, y1, y2, ax=ax)
        want = [(x, y1), (x, y2)]
    else:
        p = osyris.plot(d, ax=ax)
        want = [(x, y1)]
    m.require(all(same_array(m, a, s) for a, s in zip(arrs, snaps)) and d == d_before, "plot does not modify its inputs", key=f"modified:{tag}")
    calls = [c for c in ax.calls if c[0] == "plot"]
    if form == "dict":
        # plot(dict) draws the dict layer and then treats the dict itself as the y list: only non-modification is claimed
        return
    if not m.require(len(calls) == len(want), "one line per layer", key=f"calls:{tag}"):
        return
    for (wx, wy), (_, a, k) in zip(want, calls):
        px, py = m.vals(a[0]), m.vals(a[1])
        xs = m.vals(wx._array) if wx is not None else [m.t(float(i)) for i in range(3)]
        ys = m.vals(wy._array)
        fs = [m.le(px[i], px[i + 1]) for i in range(len(px) - 1)]
        m.check("each line is drawn in increasing x", m.And(fs), key=f"sorted:{tag}")
        # the (x, y) pairs drawn are the input pairs (same multiset, pairing kept)
        used, ok = set(), True
        for i in range(len(px)):
            hit = [j for j in range(len(xs)) if j not in used and m.entailed(m.And(m.close(px[i], xs[j], exact=True), m.close(py[i], ys[j], exact=True)))]
            if not hit:
                ok = False
                break
            used.add(hit[0])
        m.require(ok, "the points drawn are the input (x, y) pairs, pairing kept by the sort", key=f"pairs:{tag}")


def _numba1(m):
    return MAPH.single_thread(m)


def _map(m, cfg):
    import osyris
    from osyris import Array, Vector, Datagroup
    from osyris.core.layer import Layer
    res, thick, opts = cfg["res"], cfg["thick"], cfg["opts"]
    tag = f"map:{'thick' if thick else 'thin'}:res-{res}:{opts}"
    mesh = MAPH.MESHES[0]
    ncell = len(mesh)
    rho = m.array("rho", (ncell,), "float64")
    dirn = cfg.get("direction", "z")
    if dirn in ("top", "side"):
        # the orientation is computed from positions, velocities and masses: concrete rotation about a tilted axis
        tag += ":" + dirn
        pts = np.array([c[0] for c in mesh], dtype=float)
        vel = [-pts[:, 1] + 0.1 * pts[:, 2], pts[:, 0], -0.1 * pts[:, 0]]
    else:
        vel = [m.array("v" + k, (ncell,), "float64") for k in "xyz"]
    dg = Datagroup()
    dg["position"] = Vector(*[np.array([c[0][k] for c in mesh]) for k in range(3)], unit="cm")
    dg["dx"] = Array(np.array([c[1] for c in mesh]), unit="cm")
    dg["density"] = Array(rho, unit="g/cm**3")
    dg["velocity"] = Vector(*vel, unit="cm/s")
    if dirn in ("top", "side"):
        dg["mass"] = Array(np.arange(1.0, ncell + 1.0), unit="g")
    lopt = dict(mode="contourf", vmin=1.0, cmap="viridis") if opts in ("layer", "both") else {}
    copt = dict(mode="image", vmin=2.0, vmax=9.0, alpha=0.5) if opts in ("call", "both") else {}
    nobj = None
    if cfg.get("normobj"):
        from matplotlib.colors import Normalize
        nobj = Normalize()
        (copt if cfg["normobj"] == "call" else lopt)["norm"] = nobj
        tag += ":norm-instance-" + cfg["normobj"]
        nsnap = (nobj.vmin, nobj.vmax, nobj.clip)
    l1 = dg.layer("density", **lopt)
    l2 = dg.layer("velocity", mode="vec")
    ureg = osyris.units._ureg
    origin = Vector(0.3, 0.3, 0.3, unit="cm")
    dxq = ureg.Quantity(1.0, "cm")
    resolution = {"int": 2, "dict": {"x": 2, "y": 2}, "partial": {"x": 2}, "none": None}[res]
    if res == "none":
        resolution = None
    dsnap = None
    if dirn in ("vector-unit", "vector", "basis"):
        tag += ":direction-" + dirn
        from osyris.core.vector import VectorBasis
        is_basis = dirn == "basis"
        if is_basis:
            dobj = VectorBasis(n=Vector(0.0, 0.0, 2.0, name="my_n"), u=Vector(1.0, 0.0, 0.0, name="my_u"), v=Vector(0.0, 3.0, 0.0, name="my_v"))
            dvecs = [dobj.n, dobj.u, dobj.v]
        else:
            dobj = Vector(0.0, 0.0, 1.0 if dirn == "vector-unit" else 2.0, name="my_direction")
            dvecs = [dobj]

        def _dsnap():
            return [(id(v), v.name, str(v.unit), [(id(c), c.name, [float(x) for x in np.ravel(c._array)]) for c in C.vcomps(v).values()])
                    for v in dvecs] + ([(id(dobj.n), id(dobj.u), id(dobj.v))] if is_basis else [])
        dsnap = _dsnap()
        dirn = dobj
    kw = dict(dx=dxq, origin=origin, direction=dirn, plot=False, **copt)
    if resolution is not None:
        kw["resolution"] = resolution
    if thick:
        kw["dz"] = ureg.Quantity(0.8, "cm")
        kw["operation"] = "mean"
    if res == "none" or res == "partial":
        # default resolution 256: keep the symbolic run small by narrowing nothing -- run these only with the y default on a 2-pixel x
        pass
    res_snap = (dict(resolution), id(resolution)) if isinstance(resolution, dict) else None
    snaps = {k: snap_array(m, dg[k]) for k in dg.keys()}
    dg_keys = list(dg.keys())
    ls = [snap_layer(m, l1), snap_layer(m, l2)]
    osnap = snap_array(m, origin)
    if res in ("none", "partial") and m.symbolic:
        # a 256-pixel axis would fork the kernel 256 ways per cell: the symbolic run of these two resolution forms uses a
        # recorder in place of the kernel (the data path is covered by the int/dict forms and by C03); the concrete replay runs it all
        from symx import install
        Mm = install.mod("osyris.plot.map")
        real = Mm.evaluate_on_grid

        def rec_kernel(**k):
            g = k["grid_positions_in_original_basis"]
            return np.full((len(k["cell_values"]),) + tuple(g.shape[:3]), np.nan)
        Mm.evaluate_on_grid = rec_kernel
    else:
        Mm = None
    try:
        import contextlib
        import io
        with _numba1(m), contextlib.redirect_stdout(io.StringIO()):
            p1 = osyris.map(l1, l2, **kw)
            mid_ok = (not isinstance(resolution, dict)) or (dict(resolution) == res_snap[0] and id(resolution) == res_snap[1])
            p2 = osyris.map(l1, l2, **kw)
    finally:
        if Mm is not None:
            Mm.evaluate_on_grid = real
    m.require(mid_ok and ((not isinstance(resolution, dict)) or dict(resolution) == res_snap[0]),
              "the resolution dictionary given by the caller is not modified", key=f"modified-resolution:{tag}",
              info=str(resolution))
    m.require(list(dg.keys()) == dg_keys and all(same_array(m, dg[k], snaps[k]) for k in dg_keys),
              "the Datagroup and its Arrays/Vectors are not modified", key=f"modified-data:{tag}")
    m.require(same_layer(l1, ls[0]) and same_layer(l2, ls[1]), "the Layers and their option dictionaries are not modified",
              key=f"modified-layer:{tag}")
    m.require(same_array(m, origin, osnap) and float(dxq.magnitude) == 1.0 and str(dxq.units) == "centimeter",
              "origin and window size are not modified", key=f"modified-origin:{tag}")
    if dsnap is not None:
        m.require(_dsnap() == dsnap, "a Vector / VectorBasis given as the direction is not modified (values, unit, names, identity of its parts)",
                  key=f"modified-direction:{tag}", info=str([(v.name, [c.name for c in C.vcomps(v).values()]) for v in dvecs]))
    _repeat(m, p1, p2, tag)
    if nobj is not None:
        m.require((nobj.vmin, nobj.vmax, nobj.clip) == nsnap, "a norm object given as an option is not modified", key=f"modified-norm:{tag}",
                  info=str((nobj.vmin, nobj.vmax)))
        return
    # precedence as reported by the Plot
    want_mode = lopt.get("mode", copt.get("mode"))
    m.require(p1.layers[0]["mode"] == want_mode and p1.layers[1]["mode"] == "vec", "layer-level mode overrides the call-level mode",
              key=f"precedence-mode:{tag}")
    par = p1.layers[0]["params"]
    want_vmin = lopt.get("vmin", copt.get("vmin"))
    want_vmax = copt.get("vmax")
    m.require(par["norm"].vmin == want_vmin and par["norm"].vmax == want_vmax, "the norm is built from the merged vmin/vmax",
              key=f"precedence-norm:{tag}")
    m.require(par.get("cmap") == lopt.get("cmap") and par.get("alpha") == copt.get("alpha"),
              "extra keyword options: layer-level kept, call-level applied to layers that leave them unset", key=f"precedence-extra:{tag}")


def _hist(m, cfg):
    import osyris
    from osyris import Array
    from osyris.core.layer import Layer
    opts, nl = cfg["opts"], cfg["nlayers"]
    tag = f"hist2d:{opts}:L{nl}"
    x = Array(m.array("x", (2,), "float64"), unit="cm", name="xs")
    y = Array(m.array("y", (2,), "float64"), unit="g", name="ys")
    w = Array(m.array("w", (2,), "float64"), unit="K", name="temp")
    w2 = Array(m.array("u", (2,), "float64"), unit="erg", name="ener")
    lopt = dict(mode="contourf", operation="mean", vmax=5.0, cmap="magma") if opts in ("layer", "both") else {}
    copt = dict(mode="image", operation="sum", vmin=0.5, vmax=7.0, alpha=0.25) if opts in ("call", "both") else {}
    nobj = None
    if cfg.get("normobj"):
        from matplotlib.colors import Normalize
        nobj = Normalize()
        (copt if cfg["normobj"] == "call" else lopt)["norm"] = nobj
        tag += ":norm-instance-" + cfg["normobj"]
        nsnap = (nobj.vmin, nobj.vmax, nobj.clip)
    layers = [Layer(w, **lopt), Layer(w2)][:nl]
    kw = dict(resolution=2, plot=False, xmin=0.0, xmax=2.0, ymin=0.0, ymax=2.0, **copt)
    arrs = [x, y, w, w2]
    snaps = [snap_array(m, a) for a in arrs]
    ls = [snap_layer(m, l) for l in layers]
    with _numba1(m):
        p1 = osyris.histogram2d(x, y, *layers, **kw)
        p2 = osyris.histogram2d(x, y, *layers, **kw)
    m.require(all(same_array(m, a, s) for a, s in zip(arrs, snaps)), "x, y and the layer Arrays are not modified", key=f"modified-data:{tag}")
    m.require(all(same_layer(l, s) for l, s in zip(layers, ls)), "the Layers and their option dictionaries are not modified",
              key=f"modified-layer:{tag}")
    _repeat(m, p1, p2, tag)
    if nobj is not None:
        m.require((nobj.vmin, nobj.vmax, nobj.clip) == nsnap, "a norm object given as an option is not modified", key=f"modified-norm:{tag}",
                  info=str((nobj.vmin, nobj.vmax)))
        return
    if nl:
        m.require(p1.layers[0]["mode"] == lopt.get("mode", copt.get("mode")), "layer-level mode overrides the call-level mode",
                  key=f"precedence-mode:{tag}")
        par = p1.layers[0]["params"]
        m.require(par["norm"].vmin == copt.get("vmin") and par["norm"].vmax == lopt.get("vmax", copt.get("vmax")),
                  "the norm is built from the merged vmin/vmax", key=f"precedence-norm:{tag}")
        m.require(par.get("cmap") == lopt.get("cmap") and par.get("alpha") == copt.get("alpha"), "extra keyword options merged",
                  key=f"precedence-extra:{tag}")
        if nl > 1:
            m.require(p1.layers[1]["mode"] == copt.get("mode") and p1.layers[1]["params"].get("alpha") == copt.get("alpha"),
                      "call-level options apply to the layers that leave them unset", key=f"precedence-unset:{tag}")
        # operation precedence is observable in the data: layer 0 uses its own operation if set
        # (value check itself is C05's; here only that the two layers may differ)


def _extra(e):
    from symx import driver
    here = os.path.dirname(os.path.abspath(__file__))
    return driver.crosshair_extra(os.path.join(here, "ch_c19.py"), PROP, timeout=120)


def main(argv):
    from symx import driver
    driver.main("c19", argv, extra=_extra)
