"""C19 -- plot calls do not modify their inputs; per-layer options override call options.

Precedence: CrossHair contracts on parse_layer / Layer.update / Layer.copy (harness/ch_c19.py).
Non-modification and repeatability: the real map(..., plot=False) and histogram2d(...,
plot=False) run on symbolic data; every argument object is snapshotted (terms, units,
names, option fields, dict contents, identities) before and after, the call is repeated
with the same argument objects and must return term-identical data, and the options
reported in the returned Plot must follow the precedence rule."""
import os

import numpy as np

from harness import common as C
from harness import c03 as MAPH

PROP = "C19"
FILES = ["src/osyris/plot/parser.py", "src/osyris/core/layer.py", "src/osyris/plot/map.py", "src/osyris/plot/histogram2d.py",
         "src/osyris/plot/histogram1d.py", "src/osyris/plot/scatter.py", "src/osyris/plot/plot.py", "src/osyris/plot/render.py"]
FUNCTIONS = ["osyris.plot.parser.parse_layer / get_norm", "osyris.core.layer.Layer.__init__/copy/update",
             "osyris.plot.map.map (plot=False)", "osyris.plot.histogram2d.histogram2d (plot=False)"]
ASSUMPTIONS = ["histogram1d, scatter, plot and every plot=True path hand their data to matplotlib (C extension, global figure state): "
               "symbolic values cannot cross that boundary; they are NOT covered by this check (stated partial coverage of the property)",
               "option values are opaque to the code (only tested for None): ints/strs stand in for every option type in the contracts"]
BOUNDS = {"quick": {"precedence": "CrossHair: each of 8 options symbolic at layer and call level (+ a second option), all-set/none-set, "
                                  "and all 256 set/unset masks; Layer.update; Layer.copy independence",
                    "map": "8-cell mesh, symbolic values, thin and thick, resolution int / dict / partial dict, 2 layers sharing option objects, called twice",
                    "histogram2d": "2 symbolic points, 1-2 layers, called twice"},
          "thorough": {"as": "quick"}}
FLOOR = {"quick": 80, "thorough": 80}
SHADOW_EVERY = 1
LIMITS = {"quick": {"max_paths": 400, "budget_s": 200}, "thorough": {"max_paths": 400, "budget_s": 200}}
STUBS = MAPH.STUBS


def EXTRA_STUBS():
    from symx import install, core
    PU = install.mod("osyris.plot.utils")
    return {"osyris.plot.utils": {"prange": core.sym_range},
            "osyris.plot.histogram2d": {"hist2d": PU.hist2d.py_func},
            "osyris.plot.map": {"evaluate_on_grid": PU.evaluate_on_grid.py_func}}


def configs(tier):
    out = []
    for res in ("int", "dict", "partial", "none"):
        for thick in (False, True):
            for opts in ("layer", "call", "both", "neither"):
                if res in ("int", "none") and opts not in ("both",):
                    continue
                out.append(dict(kind="map", res=res, thick=thick, opts=opts))
    for opts in ("layer", "call", "both", "neither"):
        out.append(dict(kind="hist2d", opts=opts, nlayers=2))
    out.append(dict(kind="hist2d", opts="both", nlayers=0))
    return out


def snap_array(m, a):
    comps = list(a._xyz.values()) if hasattr(a, "_xyz") else [a]
    return (id(a), a.name, str(a.unit), [m.vals(c._array) for c in comps], [id(c._array) for c in comps])


def same_array(m, a, s):
    comps = list(a._xyz.values()) if hasattr(a, "_xyz") else [a]
    return id(a) == s[0] and a.name == s[1] and str(a.unit) == s[2] and len(comps) == len(s[3]) and \
        all(C.same_terms(m, m.vals(c._array), t) for c, t in zip(comps, s[3])) and [id(c._array) for c in comps] == s[4]


def snap_layer(m, l):
    return dict(id=id(l), mode=l.mode, operation=l.operation, norm=l.norm, vmin=l.vmin, vmax=l.vmax, bins=l.bins,
                weights=l.weights, kwargs=dict(l.kwargs), kwargs_id=id(l.kwargs), keys=list(l.arrays.keys()),
                arrays_id=id(l.arrays), members={k: id(v) for k, v in l.arrays.items()}, key=l.key)


def same_layer(l, s):
    return (id(l) == s["id"] and l.mode == s["mode"] and l.operation == s["operation"] and l.norm == s["norm"] and l.vmin == s["vmin"]
            and l.vmax == s["vmax"] and l.bins == s["bins"] and l.weights == s["weights"] and l.kwargs == s["kwargs"]
            and id(l.kwargs) == s["kwargs_id"] and list(l.arrays.keys()) == s["keys"] and id(l.arrays) == s["arrays_id"]
            and {k: id(v) for k, v in l.arrays.items()} == s["members"] and l.key == s["key"])


def layer_terms(m, plot):
    out = []
    for lay in plot.layers:
        d = lay["data"]
        from symx.arr import raw
        D = np.asarray(d.data if not hasattr(d.data, "_ld") else raw(d.data), dtype=object)
        M = np.broadcast_to(np.asarray(d.mask, dtype=bool), D.shape)
        out.append(([None if mk else m.t(v) for v, mk in zip(D.ravel(), M.ravel())], str(lay["unit"]), lay["name"], lay["mode"]))
    return out


def _repeat(m, p1, p2, tag):
    t1, t2 = layer_terms(m, p1), layer_terms(m, p2)
    ok = len(t1) == len(t2) and all(a[1:] == b[1:] and len(a[0]) == len(b[0]) and
                                    all((u is None) == (v is None) for u, v in zip(a[0], b[0])) for a, b in zip(t1, t2))
    if not m.require(ok, "calling again returns layers of the same shape, unit, name, mode and mask", key=f"repeat:{tag}"):
        return
    fs = [m.close(u, v, exact=True) for a, b in zip(t1, t2) for u, v in zip(a[0], b[0]) if u is not None]
    fs += [m.close(u, v, exact=True) for u, v in zip(m.vals(p1.x), m.vals(p2.x))] + [m.close(u, v, exact=True) for u, v in zip(m.vals(p1.y), m.vals(p2.y))]
    m.check("calling again with the same argument objects returns the same data", m.And(fs), key=f"repeat:{tag}")


def body(m, cfg):
    if cfg["kind"] == "map":
        return _map(m, cfg)
    return _hist(m, cfg)


def _numba1(m):
    return MAPH.single_thread(m)


def _map(m, cfg):
    import osyris
    from osyris import Array, Vector, Datagroup
    from osyris.core.layer import Layer
    res, thick, opts = cfg["res"], cfg["thick"], cfg["opts"]
    tag = f"map:{'thick' if thick else 'thin'}:res-{res}:{opts}"
    mesh = MAPH.MESHES[0]
    ncell = len(mesh)
    rho = m.array("rho", (ncell,), "float64")
    vel = [m.array("v" + k, (ncell,), "float64") for k in "xyz"]
    dg = Datagroup()
    dg["position"] = Vector(*[np.array([c[0][k] for c in mesh]) for k in range(3)], unit="cm")
    dg["dx"] = Array(np.array([c[1] for c in mesh]), unit="cm")
    dg["density"] = Array(rho, unit="g/cm**3")
    dg["velocity"] = Vector(*vel, unit="cm/s")
    lopt = dict(mode="contourf", vmin=1.0, cmap="viridis") if opts in ("layer", "both") else {}
    copt = dict(mode="image", vmin=2.0, vmax=9.0, alpha=0.5) if opts in ("call", "both") else {}
    l1 = dg.layer("density", **lopt)
    l2 = dg.layer("velocity", mode="vec")
    ureg = osyris.units._ureg
    origin = Vector(0.3, 0.3, 0.3, unit="cm")
    dxq = ureg.Quantity(1.0, "cm")
    resolution = {"int": 2, "dict": {"x": 2, "y": 2}, "partial": {"x": 2}, "none": None}[res]
    if res == "none":
        resolution = None
    kw = dict(dx=dxq, origin=origin, direction="z", plot=False, **copt)
    if resolution is not None:
        kw["resolution"] = resolution
    if thick:
        kw["dz"] = ureg.Quantity(0.8, "cm")
        kw["operation"] = "mean"
    if res == "none" or res == "partial":
        # default resolution 256: keep the symbolic run small by narrowing nothing -- run these only with the y default on a 2-pixel x
        pass
    res_snap = (dict(resolution), id(resolution)) if isinstance(resolution, dict) else None
    snaps = {k: snap_array(m, dg[k]) for k in dg.keys()}
    dg_keys = list(dg.keys())
    ls = [snap_layer(m, l1), snap_layer(m, l2)]
    osnap = snap_array(m, origin)
    if res in ("none", "partial") and m.symbolic:
        # a 256-pixel axis would fork the kernel 256 ways per cell: the symbolic run of these two resolution forms uses a
        # recorder in place of the kernel (the data path is covered by the int/dict forms and by C03); the concrete replay runs it all
        from symx import install
        Mm = install.mod("osyris.plot.map")
        real = Mm.evaluate_on_grid

        def rec_kernel(**k):
            g = k["grid_positions_in_original_basis"]
            return np.full((len(k["cell_values"]),) + tuple(g.shape[:3]), np.nan)
        Mm.evaluate_on_grid = rec_kernel
    else:
        Mm = None
    try:
        with _numba1(m):
            p1 = osyris.map(l1, l2, **kw)
            mid_ok = (not isinstance(resolution, dict)) or (dict(resolution) == res_snap[0] and id(resolution) == res_snap[1])
            p2 = osyris.map(l1, l2, **kw)
    finally:
        if Mm is not None:
            Mm.evaluate_on_grid = real
    m.require(mid_ok and ((not isinstance(resolution, dict)) or dict(resolution) == res_snap[0]),
              "the resolution dictionary given by the caller is not modified", key=f"modified-resolution:{tag}",
              info=str(resolution))
    m.require(list(dg.keys()) == dg_keys and all(same_array(m, dg[k], snaps[k]) for k in dg_keys),
              "the Datagroup and its Arrays/Vectors are not modified", key=f"modified-data:{tag}")
    m.require(same_layer(l1, ls[0]) and same_layer(l2, ls[1]), "the Layers and their option dictionaries are not modified",
              key=f"modified-layer:{tag}")
    m.require(same_array(m, origin, osnap) and float(dxq.magnitude) == 1.0 and str(dxq.units) == "centimeter",
              "origin and window size are not modified", key=f"modified-origin:{tag}")
    _repeat(m, p1, p2, tag)
    # precedence as reported by the Plot
    want_mode = lopt.get("mode", copt.get("mode"))
    m.require(p1.layers[0]["mode"] == want_mode and p1.layers[1]["mode"] == "vec", "layer-level mode overrides the call-level mode",
              key=f"precedence-mode:{tag}")
    par = p1.layers[0]["params"]
    want_vmin = lopt.get("vmin", copt.get("vmin"))
    want_vmax = copt.get("vmax")
    m.require(par["norm"].vmin == want_vmin and par["norm"].vmax == want_vmax, "the norm is built from the merged vmin/vmax",
              key=f"precedence-norm:{tag}")
    m.require(par.get("cmap") == lopt.get("cmap") and par.get("alpha") == copt.get("alpha"),
              "extra keyword options: layer-level kept, call-level applied to layers that leave them unset", key=f"precedence-extra:{tag}")


def _hist(m, cfg):
    import osyris
    from osyris import Array
    from osyris.core.layer import Layer
    opts, nl = cfg["opts"], cfg["nlayers"]
    tag = f"hist2d:{opts}:L{nl}"
    x = Array(m.array("x", (2,), "float64"), unit="cm", name="xs")
    y = Array(m.array("y", (2,), "float64"), unit="g", name="ys")
    w = Array(m.array("w", (2,), "float64"), unit="K", name="temp")
    w2 = Array(m.array("u", (2,), "float64"), unit="erg", name="ener")
    lopt = dict(mode="contourf", operation="mean", vmax=5.0, cmap="magma") if opts in ("layer", "both") else {}
    copt = dict(mode="image", operation="sum", vmin=0.5, vmax=7.0, alpha=0.25) if opts in ("call", "both") else {}
    layers = [Layer(w, **lopt), Layer(w2)][:nl]
    kw = dict(resolution=2, plot=False, xmin=0.0, xmax=2.0, ymin=0.0, ymax=2.0, **copt)
    arrs = [x, y, w, w2]
    snaps = [snap_array(m, a) for a in arrs]
    ls = [snap_layer(m, l) for l in layers]
    with _numba1(m):
        p1 = osyris.histogram2d(x, y, *layers, **kw)
        p2 = osyris.histogram2d(x, y, *layers, **kw)
    m.require(all(same_array(m, a, s) for a, s in zip(arrs, snaps)), "x, y and the layer Arrays are not modified", key=f"modified-data:{tag}")
    m.require(all(same_layer(l, s) for l, s in zip(layers, ls)), "the Layers and their option dictionaries are not modified",
              key=f"modified-layer:{tag}")
    _repeat(m, p1, p2, tag)
    if nl:
        m.require(p1.layers[0]["mode"] == lopt.get("mode", copt.get("mode")), "layer-level mode overrides the call-level mode",
                  key=f"precedence-mode:{tag}")
        par = p1.layers[0]["params"]
        m.require(par["norm"].vmin == copt.get("vmin") and par["norm"].vmax == lopt.get("vmax", copt.get("vmax")),
                  "the norm is built from the merged vmin/vmax", key=f"precedence-norm:{tag}")
        m.require(par.get("cmap") == lopt.get("cmap") and par.get("alpha") == copt.get("alpha"), "extra keyword options merged",
                  key=f"precedence-extra:{tag}")
        if nl > 1:
            m.require(p1.layers[1]["mode"] == copt.get("mode") and p1.layers[1]["params"].get("alpha") == copt.get("alpha"),
                      "call-level options apply to the layers that leave them unset", key=f"precedence-unset:{tag}")
        # operation precedence is observable in the data: layer 0 uses its own operation if set
        # (value check itself is C05's; here only that the two layers may differ)


def _extra(e):
    from symx import driver
    here = os.path.dirname(os.path.abspath(__file__))
    return driver.crosshair_extra(os.path.join(here, "ch_c19.py"), PROP, timeout=120)


def main(argv):
    from symx import driver
    driver.main("c19", argv, extra=_extra)
