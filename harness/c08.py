"""C08 -- unit conversion preserves the physical quantity; defined units have true values."""
import itertools

import numpy as np

from harness import common as C
from oracles import units as U

PROP = "C08"
FILES = ["src/osyris/core/array.py", "src/osyris/core/vector.py", "src/osyris/units/units.py",
         "src/osyris/config/defaults.py", "src/osyris/config/__init__.py"]
FUNCTIONS = ["osyris.core.array.Array.to", "osyris.core.vector.Vector.to", "osyris.units.units.Units.__call__",
             "osyris.config.defaults.configure_constants"]
ASSUMPTIONS = ["catalogue values are compared with IAU 2015 / CODATA 2018 values at relative tolerance 1e-3",
               "conversions are compared with the independent table at relative tolerance 1e-9",
               "HOME points at a fresh directory, so the configuration checked is /repo's defaults.py"]
BOUNDS = {"quick": {"histories": "to() twice with an in-place change of the source or of the first result in between (7 kinds x 4 unit pairs, Array and Vector)",
                    "values": "all symbolic", "unit pairs": "all ordered pairs of 3 units per family + chains + incompatible",
                    "kinds": "Array 0-d/(2,), Vector nvec 1..3", "dtypes": "f64, f32, i64", "catalogue": "all 9 defined units, all aliases"},
          "thorough": {"values": "all symbolic", "unit pairs": "all ordered pairs of all units per family", "kinds": "as quick + (2,2)",
                       "dtypes": "f64,f32,i64,i32", "catalogue": "as quick"}}
FLOOR = {"quick": 600, "thorough": 2000}
SHADOW_EVERY = 1
LIMITS = {"quick": {"max_paths": 16, "budget_s": 60}, "thorough": {"max_paths": 16, "budget_s": 60}}

CGS_OF = {"solar_mass": "g", "earth_mass": "g", "jupiter_mass": "g", "solar_radius": "cm", "earth_radius": "cm",
          "jupiter_radius": "cm", "solar_luminosity": "erg/s", "bolometric_luminosity": "erg/s",
          "radiation_constant": "erg/cm**3/K**4"}
INCOMPAT = [("m", "g"), ("s", "cm"), ("erg", "g/cm**3"), ("M_sun", "R_sun"), ("dimensionless", "cm"), ("cm/s", "cm")]


SPELLINGS = [("cm / s", "cm/s", True), ("g/cm**3", "g / cm ** 3", True), ("m s", "m*s", True), ("ms", "millisecond", True),
             ("m s", "ms", False), ("m K", "mK", False), ("m s**-1", "ms**-1", False), ("erg s", "erg*s", True), ("M_sun", "M_sol", True),
             ("km", "k m", None)]


def configs(tier):
    out = []
    n = 3 if tier == "quick" else 9
    dts = ["float64", "float32", "int64"] + (["int32"] if tier != "quick" else [])
    for fam, us in C.FAMILIES.items():
        us = us[:n]
        for ua, ub in itertools.product(us, us):
            out.append(dict(kind="array", ua=ua, ub=ub, dt="float64", shape=[2]))
            out.append(dict(kind="vector", nvec=3, ua=ua, ub=ub, dt="float64", shape=[2]))
        for ua, ub, uc in itertools.permutations(us, 3):
            out.append(dict(kind="chain", ua=ua, ub=ub, uc=uc, dt="float64", shape=[2]))
    for dt in dts:
        for shape in ([[], [2]] + ([[2, 2]] if tier != "quick" else [])):
            for ua, ub in [("m", "cm"), ("pc", "au"), ("M_sun", "g"), ("yr", "s"), ("cm", "cm")]:
                out.append(dict(kind="array", ua=ua, ub=ub, dt=dt, shape=shape))
                for nvec in (1, 2, 3):
                    out.append(dict(kind="vector", nvec=nvec, ua=ua, ub=ub, dt=dt, shape=shape))
    # repeated conversions with an in-place change of the source or of the earlier result in between (a conversion result
    # remembered inside the Array must not be observable)
    for ua, ub in [("m", "cm"), ("cm", "cm"), ("M_sun", "g"), ("km/m", "dimensionless")]:
        for mut in ("none", "res_imul", "res_set", "src_imul", "src_set", "src_iadd", "src_unit"):
            for kd in ("repeat", "repeat-vector"):
                out.append(dict(kind=kd, ua=ua, ub=ub, dt="float64", shape=[2], mut=mut))
    for ua, ub in INCOMPAT:
        out.append(dict(kind="array", ua=ua, ub=ub, dt="float64", shape=[2]))
        out.append(dict(kind="vector", nvec=2, ua=ua, ub=ub, dt="float64", shape=[2]))
    for name in CGS_OF:
        for alias in U.ALIASES[name]:
            out.append(dict(kind="catalogue", name=name, alias=alias))
    for name, al in U.ALIASES.items():
        out.append(dict(kind="aliases", name=name))
    # spellings: pairs that must denote the same unit / different units, in both orders within one process
    # (pint reads a space as a product: "m s" is metre*second, "ms" is millisecond)
    for a, b, same in SPELLINGS:
        out.append(dict(kind="spelling", a=a, b=b, same=same))
        out.append(dict(kind="spelling", a=b, b=a, same=same))
    return out


def _to_checks(m, a, r, ua, ub, tag, snap):
    """r = a.to(ub) for an Array a."""
    from osyris import Array
    fa, da = C.fd(ua)
    fb, db = C.fd(ub)
    if not m.require(isinstance(r, Array), "result is an Array", key=f"type:{tag}"):
        return
    try:
        fr, dr = U.factor_dim(r.unit)
    except U.UnknownUnit as e:
        m.fail(f"unknown unit {e}", key=f"unit:{tag}")
        return
    m.require(dr == db and abs(fr / fb - 1) < 1e-9, "result is labelled with the requested unit", key=f"unit:{tag}",
              info=str(r.unit))
    m.require(tuple(r.shape) == tuple(a.shape), "shape kept", key=f"shape:{tag}")
    av, rv = m.vals(a._array), m.vals(r._array)
    m.observe("converted", r._array)
    tol = C.tol_for(ua, ub)
    m.check("same physical quantity", m.And([m.close(m.t(y) * fb, m.t(x) * fa, tol=tol) for x, y in zip(av, rv)]),
            key=f"value:{tag}")
    m.require(C.unchanged(m, a, snap) and id(a._array) == snap[2], "source untouched", key=f"source-modified:{tag}")


def body(m, cfg):
    import osyris
    from osyris import Array, Vector
    from pint.errors import DimensionalityError
    kind = cfg["kind"]
    if kind == "catalogue":
        name, alias = cfg["name"], cfg["alias"]
        x = m.real("x")
        try:
            r = Array(x, unit=alias).to(CGS_OF[name])
        except Exception as e:
            m.fail(f"{alias} not convertible to {CGS_OF[name]}: {type(e).__name__}", key=f"catalogue:{name}")
            return
        fo, do = U.TABLE[name]
        fc, dc = C.fd(CGS_OF[name])
        m.require(dc == tuple(do), "dimension of the defined unit", key=f"catalogue-dim:{name}")
        m.check(f"{alias} has its accepted CGS value", m.close(m.t(r.values) * fc, m.t(x) * fo, tol=1e-3),
                key=f"catalogue:{name}")
        return
    if kind == "spelling":
        a, b, same = cfg["a"], cfg["b"], cfg["same"]
        try:
            ua = osyris.units(a)
            ub = osyris.units(b)
        except Exception:
            m.require(same is None, f"units({a!r}) / units({b!r}) parse", key=f"spelling-parse:{a}|{b}")
            return
        if same is None:
            return
        eq = (ua == ub)
        m.require(eq == same, f"units({a!r}) and units({b!r}) are {'the same' if same else 'different'} units", key=f"spelling:{a}|{b}")
        x = m.real("x")
        try:
            r = Array(x, unit=a).to(b)
            conv = True
        except DimensionalityError:
            conv = False
        da_, db_ = None, None
        try:
            da_, db_ = U.factor_dim(ua), U.factor_dim(ub)
        except U.UnknownUnit:
            return
        if da_[1] == db_[1]:
            m.require(conv, "compatible units convert", key=f"spelling-convert:{a}|{b}")
            if conv:
                m.check("conversion between the two spellings preserves the quantity", m.close(m.t(r.values) * db_[0], m.t(x) * da_[0]),
                        key=f"spelling-convert:{a}|{b}")
        else:
            m.require(not conv, "different dimensions refuse to convert", key=f"spelling-convert:{a}|{b}")
        return
    if kind == "aliases":
        us = [osyris.units(al) for al in U.ALIASES[cfg["name"]]]
        m.require(all(u == us[0] for u in us), "equivalent spellings give the same unit", key=f"alias:{cfg['name']}")
        f0 = [U.factor_dim(u) for u in us]
        m.require(all(f == f0[0] for f in f0), "equivalent spellings, same factor", key=f"alias:{cfg['name']}")
        return
    ua, ub, dt, shape = cfg["ua"], cfg["ub"], cfg["dt"], tuple(cfg["shape"])
    m.dtype_tol(dt)
    fa, da = C.fd(ua)
    fb, db = C.fd(ub)
    tag = f"{kind}:{C.DT_SHORT[dt]}:{'same' if ua == ub else ('compat' if da == db else 'incompat')}"
    if kind == "array":
        a = Array(m.array("a", shape, dt), unit=ua)
        snap = C.snapshot(m, a)
        try:
            r = a.to(ub)
        except DimensionalityError:
            m.require(da != db and C.unchanged(m, a, snap), "raises only for another dimension, source unchanged",
                      key=f"unexpected-raise:{tag}")
            return
        if da != db:
            m.fail("conversion to another dimension did not raise", key=f"no-raise:{tag}")
            return
        _to_checks(m, a, r, ua, ub, tag, snap)
        # round trip
        back = r.to(ua)
        m.check("round trip reproduces the values", m.all_close(m.vals(back._array), m.vals(a._array)),
                key=f"roundtrip:{tag}")
        m.require(C.unit_dim_ok(back.unit, da), "round trip unit", key=f"roundtrip-unit:{tag}")
    elif kind == "vector":
        nvec = cfg["nvec"]
        comps = [m.array("xyz"[i], shape, dt) for i in range(nvec)]
        v = Vector(*comps, unit=ua)
        snaps = [C.snapshot(m, c) for c in C.vcomps(v).values()]
        try:
            r = v.to(ub)
        except DimensionalityError:
            ok = da != db and all(C.unchanged(m, c, s) for c, s in zip(C.vcomps(v).values(), snaps))
            m.require(ok, "raises only for another dimension", key=f"unexpected-raise:{tag}")
            return
        if da != db:
            m.fail("conversion to another dimension did not raise", key=f"no-raise:{tag}")
            return
        if not m.require(isinstance(r, Vector) and r.nvec == nvec, "result is a Vector with the same components",
                         key=f"type:{tag}"):
            return
        for (cn, c), s in zip(C.vcomps(v).items(), snaps):
            _to_checks(m, c, getattr(r, cn), ua, ub, f"{tag}:{cn}", s)
    elif kind in ("repeat", "repeat-vector"):
        mut = cfg["mut"]
        tag += ":" + mut
        if kind == "repeat":
            a = Array(m.array("a", shape, dt), unit=ua)
            r1 = a.to(ub)
            src, res = a, r1
        else:
            v = Vector(*[m.array("xyz"[i], shape, dt) for i in range(2)], unit=ua)
            r1 = v.to(ub)
            a, src, res = v.y, v, r1
            r1 = r1.y
        snap0 = C.snapshot(m, a)
        if mut == "res_imul":
            res *= 3.0
        elif mut == "res_set":
            r1.values[0] = m.real("v")
        if mut.startswith("res") and fa != fb:         # (with equal units to() may return the source itself)
            m.require(C.unchanged(m, a, snap0), "changing the result of to() does not change the source", key=f"source-modified:{tag}")
        if mut == "src_imul":
            src *= 3.0
        elif mut == "src_iadd":
            src += Array(m.array("d", shape, dt), unit=ua)
        elif mut == "src_set":
            a.values[0] = m.real("v")
        elif mut == "src_unit":
            ua = {"m": "km", "cm": "m", "M_sun": "kg", "km/m": "percent"}[ua]
            src.unit = osyris.units(ua)
        ua = a.unit                                    # (an in-place product may relabel the source)
        snap = C.snapshot(m, a)
        r2 = src.to(ub)
        if kind == "repeat-vector":
            r2 = r2.y
        _to_checks(m, a, r2, ua, ub, tag, snap)
    elif kind == "chain":
        uc = cfg["uc"]
        a = Array(m.array("a", shape, dt), unit=ua)
        r1 = a.to(ub).to(uc)
        r2 = a.to(uc)
        m.check("a->b->c equals a->c", m.all_close(m.vals(r1._array), m.vals(r2._array)), key=f"chain:{tag}")
        m.require(str(r1.unit) == str(r2.unit), "chain units equal", key=f"chain-unit:{tag}")
