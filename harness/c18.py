"""C18 -- every accepted map orientation yields an orthonormal, correctly oriented basis."""
import itertools

import numpy as np

from harness import common as C

PROP = "C18"
FILES = ["src/osyris/plot/direction.py", "src/osyris/core/vector.py"]
FUNCTIONS = ["osyris.plot.direction.get_direction", "osyris.core.vector.VectorBasis.__init__/roll",
             "osyris.core.vector.perpendicular_vector", "osyris.core.vector.normalize", "Vector.cross/norm/dot"]
ASSUMPTIONS = ["reals for floats: overflow/underflow of tiny or huge components is outside the claim",
               "VectorBasis inputs are assumed mutually orthogonal and non-zero; top/side assume a non-zero net angular momentum",
               "square roots enter as fresh non-negative variables r with r*r = t (QF_NRA)"]
BOUNDS = {"quick": {"normal": "3 symbolic components, any non-zero vector (z = 0 and z != 0 paths), unit cm or dimensionless",
                    "strings": "x y z X Y Z, all 6 axis triples in lower/upper/mixed case", "VectorBasis": "3 symbolic orthogonal vectors",
                    "top/side": "2 symbolic cells + origin, dx given or omitted; every in/out-of-sphere pattern is a path; the same call made a second "
                                "time on the same data (data and origin unchanged, second basis checked)"},
          "thorough": {"as": "quick with 3 cells for top/side"}}
FLOOR = {"quick": 300, "thorough": 500}
SHADOW_EVERY = 1
LIMITS = {"quick": {"max_paths": 200, "budget_s": 300}, "thorough": {"max_paths": 2000, "budget_s": 1200}}
TOL = 1e-9


def configs(tier):
    out = []
    for s in ["x", "y", "z", "X", "Y", "Z"]:
        out.append(dict(kind="letter", d=s))
    for p in itertools.permutations("xyz"):
        t = "".join(p)
        out += [dict(kind="triple", d=t), dict(kind="triple", d=t.upper()), dict(kind="triple", d=t[0].upper() + t[1:])]
    for unit in ("dimensionless", "cm", "km/s"):
        out.append(dict(kind="vector", unit=unit))
    out.append(dict(kind="basis"))
    for d in ("top", "side", "TOP", "Side"):
        for dx in (True, False):
            for org in (True, False):
                if dx:
                    out.append(dict(kind="angmom", d=d, dx=dx, origin=org, ncell=2))
                else:
                    for li in range(len(LAYOUTS)):
                        out.append(dict(kind="angmom", d=d, dx=dx, origin=org, ncell=len(LAYOUTS[li]), layout=li))
    # the same call made twice on the same data: the second answer is checked, and the data must not have been touched
    for d in ("top", "side"):
        out.append(dict(kind="angmom", d=d, dx=True, origin=True, ncell=2, repeat=True))
        out.append(dict(kind="angmom", d=d, dx=False, origin=True, ncell=len(LAYOUTS[0]), layout=0, repeat=True))
    # the window given in other units than the positions (and dx, dy in two different units): same physical window
    for d in ("top", "side"):
        out.append(dict(kind="angmom", d=d, dx=True, origin=True, ncell=2, dxunit=("m", "mm")))
        out.append(dict(kind="angmom", d=d, dx=True, origin=False, ncell=2, dxunit=("km", "km")))
    if tier != "quick":
        out.append(dict(kind="angmom", d="side", dx=True, origin=False, ncell=1, full=True))
        out.append(dict(kind="angmom", d="top", dx=True, origin=True, ncell=3))
    return out


LAYOUTS = [
    [(0.0, 0.0, 0.0), (0.5, 0.25, 0.0), (3.0, 3.0, 3.0)],
    [(1.0, 0.0, 0.0), (0.0, 1.0, 0.0), (0.0, 0.0, 1.0), (-4.0, -4.0, -4.0)],
    [(0.1, 0.2, 0.3), (0.2, 0.1, 0.0), (0.3, 0.3, 0.1), (0.9, 0.8, 0.7)],
]


def comps(m, v):
    return [m.t(v.x.values), m.t(v.y.values), m.t(v.z.values)]


def dot(p, q):
    return p[0] * q[0] + p[1] * q[1] + p[2] * q[2]


def cross(p, q):
    return [p[1] * q[2] - p[2] * q[1], p[2] * q[0] - p[0] * q[2], p[0] * q[1] - p[1] * q[0]]


def orthonormal(m, tag, N, U, V, timeout=60000):
    for nm, val, want in (("n.n", dot(N, N), 1), ("u.u", dot(U, U), 1), ("v.v", dot(V, V), 1),
                          ("u.v", dot(U, V), 0), ("u.n", dot(U, N), 0), ("v.n", dot(V, N), 0)):
        m.check(f"{nm} = {want}", m.close(val, want, scale=1.0, exact=True), key=f"orthonormal:{tag}:{nm}", timeout_ms=timeout)


def parallel(m, tag, N, req, label="n parallel to the requested normal", key="parallel", scale=None):
    cr = cross(N, req)
    sc = scale if scale is not None else (m.abs(req[0]) + m.abs(req[1]) + m.abs(req[2]))
    m.check(label, m.And([m.close(c, 0, scale=sc, exact=True) for c in cr] + [m.gt(dot(N, req), 0)]), key=f"{key}:{tag}", timeout_ms=60000)


def body(m, cfg):
    import osyris
    from osyris import Array, Vector, VectorBasis
    from osyris.plot.direction import get_direction
    kind = cfg["kind"]
    E = {"x": [1.0, 0.0, 0.0], "y": [0.0, 1.0, 0.0], "z": [0.0, 0.0, 1.0]}
    if kind in ("letter", "triple"):
        d = cfg["d"]
        b = get_direction(d)
        if not m.require(isinstance(b, VectorBasis), "a basis is returned", key=f"type:{kind}"):
            return
        N, U, V = comps(m, b.n), comps(m, b.u), comps(m, b.v)
        orthonormal(m, kind, N, U, V)
        parallel(m, kind, N, E[d[0].lower()])
        if kind == "letter":
            m.check("u x v = n", m.And([m.close(c, n, scale=1.0, exact=True) for c, n in zip(cross(U, V), N)]), key=f"righthanded:{kind}")
        else:
            parallel(m, kind, U, E[d[1].lower()], "u along the second letter", "u-axis")
            parallel(m, kind, V, E[d[2].lower()], "v along the third letter", "v-axis")
        return
    if kind == "vector":
        a, bb, c = m.real("nx"), m.real("ny"), m.real("nz")
        m.assume(m.Or(m.Not(m.eq(a, 0)), m.Not(m.eq(bb, 0)), m.Not(m.eq(c, 0))))
        b = get_direction(Vector(a, bb, c, unit=cfg["unit"]))
        tag = "vector"
        N, U, V = comps(m, b.n), comps(m, b.u), comps(m, b.v)
        orthonormal(m, tag, N, U, V)
        parallel(m, tag, N, [m.t(a), m.t(bb), m.t(c)])
        m.check("u x v = n", m.And([m.close(x, n, scale=1.0, exact=True) for x, n in zip(cross(U, V), N)]), key=f"righthanded:{tag}",
                timeout_ms=60000)
        return
    if kind == "basis":
        P = [[m.real(f"{w}{k}") for k in "xyz"] for w in "nuv"]
        T = [[m.t(x) for x in row] for row in P]
        for row in T:
            m.assume(m.Not(m.And([m.eq(x, 0) for x in row])))
        m.assume(m.And(m.eq(dot(T[0], T[1]), 0), m.eq(dot(T[0], T[2]), 0), m.eq(dot(T[1], T[2]), 0)))
        vb = VectorBasis(n=Vector(*P[0]), u=Vector(*P[1]), v=Vector(*P[2]))
        b = get_direction(vb)
        N, U, V = comps(m, b.n), comps(m, b.u), comps(m, b.v)
        orthonormal(m, "basis", N, U, V)
        parallel(m, "basis", N, T[0])
        parallel(m, "basis", U, T[1], "u parallel to the given u", "u-axis")
        parallel(m, "basis", V, T[2], "v parallel to the given v", "v-axis")
        return
    # top / side
    n = cfg["ncell"]
    d = cfg["d"]
    tag = d.lower() + (":dx" if cfg["dx"] else ":auto") + (":origin" if cfg["origin"] else "") + (":second-call" if cfg.get("repeat") else "")
    if cfg["dx"]:
        pos = Vector(*[m.array("p" + k, (n,), "float64") for k in "xyz"], unit="cm")
    else:
        # window omitted: the radius is derived from the extent of the positions; a symbolic radius under the
        # square root of symbolic distances is beyond z3's nlsat within minutes, so the positions (and origin)
        # of these configurations are concrete layouts and velocities/masses stay symbolic
        lay = LAYOUTS[cfg.get("layout", 0)]
        pos = Vector(*[np.array([p[k] for p in lay], dtype=float) for k in range(3)], unit="cm")
        n = len(lay)
    vel = Vector(*[m.array("w" + k, (n,), "float64") for k in "xyz"], unit="cm/s")
    cfg = dict(cfg, ncell=n)
    mass = Array(m.array("mass", (n,), "float64"), unit="g")
    for t in m.vals(mass._array):
        m.assume(m.gt(t, 0))
    data = {"position": pos, "velocity": vel, "mass": mass}
    if cfg["origin"] and not cfg["dx"]:
        origin = Vector(0.5, -0.25, 0.125, unit="cm")
    else:
        origin = Vector(*[m.real("o" + k) for k in "xyz"], unit="cm") if cfg["origin"] else None
    O = comps(m, origin) if origin is not None else [0.0, 0.0, 0.0]
    ureg = osyris.units._ureg
    if cfg["dx"]:
        dx = ureg.Quantity(2.0, "cm")
        dy = ureg.Quantity(1.0, "cm")
        if cfg.get("dxunit"):
            dx, dy = dx.to(cfg["dxunit"][0]), dy.to(cfg["dxunit"][1])
            tag += ":window-in-" + "+".join(cfg["dxunit"])
        rad = 0.75
    else:
        dx = dy = None
    P = [[m.t(t) for t in m.vals(c._array)] for c in C.vcomps(pos).values()]
    W = [[m.t(t) for t in m.vals(c._array)] for c in C.vcomps(vel).values()]
    M = [m.t(t) for t in m.vals(mass._array)]
    if cfg.get("dxunit"):
        # the radius goes through two float unit conversions: cells within a relative 1e-6 of the sphere's surface are left out
        # (floats are modelled as reals; rounding is outside the claim)
        for r in range(n):
            rv_ = [P[k][r] - O[k] for k in range(3)]
            m.assume(m.Or([dot(rv_, rv_) < (rad * (1 - 1e-6)) ** 2, dot(rv_, rv_) > (rad * (1 + 1e-6)) ** 2]))
    import io
    import contextlib
    from symx import install
    D = install.mod("osyris.plot.direction")
    rec = {}
    realVB = D.VectorBasis

    def _vb_pre(n, u=None, v=None):
        """Cut point: record the angular-momentum vector handed to VectorBasis and (symbolic mode)
        continue with a fresh arbitrary non-zero vector l in its place.  The basis construction for
        an ARBITRARY normal is what the 'vector' configurations prove; here it is re-proved for l
        and the recorded vector is proved equal to the oracle L separately."""
        if u is None and "L" not in rec:
            rec["L"] = comps(m, n)
            if m.symbolic:
                l = [m.real("l" + k) for k in "xyz"]
                m.assume(m.Or([m.Not(m.eq(x, 0)) for x in l]))
                rec["l"] = [m.t(x) for x in l]
                n = Vector(*l, name=n.name)
            else:
                rec["l"] = rec["L"]
        return n, u, v
    VB = _hook_class(realVB, _vb_pre)

    from symx import core as _core
    Vm = install.mod("osyris.core.vector")
    realVB2 = Vm.VectorBasis
    rolled = {}

    def _vb2_post(r, n, u, v):
        if u is not None and v is not None:
            rolled["args"] = (n, u, v)
            rolled["result"] = r
    VB2 = _hook_class(realVB2, lambda n, u=None, v=None: (n, u, v), _vb2_post)

    D.VectorBasis = VB
    if d.lower() == "side":
        Vm.VectorBasis = VB2
    _core.MERGE_MINMAX[0] = False
    try:
        with contextlib.redirect_stdout(io.StringIO()):
            if cfg.get("repeat"):
                members = dict(data)
                if m.symbolic:
                    # the first call's own basis is not the subject: continue it with a fixed normal (keeps the path condition small)
                    D.VectorBasis = _hook_class(realVB, lambda n, u=None, v=None: (Vector(0.0, 0.0, 1.0), u, v))
                    Vm.VectorBasis = realVB2
                try:
                    get_direction(d, data=data, dx=dx, dy=dy, origin=origin)
                finally:
                    D.VectorBasis = VB
                    if d.lower() == "side":
                        Vm.VectorBasis = VB2
                rec.clear()
                rolled.clear()
                now = [[m.t(t) for t in m.vals(c._array)] for c in C.vcomps(pos).values()] + \
                      [[m.t(t) for t in m.vals(c._array)] for c in C.vcomps(vel).values()] + [[m.t(t) for t in m.vals(mass._array)]]
                same = all(data.get(k_) is v_ for k_, v_ in members.items()) and len(data) == len(members)
                m.require(same, "get_direction leaves the members of the data it is given in place", key=f"inputs-modified:{tag}")
                pairs = [(a_, b_) for x_, y_ in zip(now, P + W + [M]) for a_, b_ in zip(x_, y_)]
                if origin is not None:
                    pairs += list(zip(comps(m, origin), O))
                m.check("get_direction leaves the values of the data and the origin it is given unchanged",
                        m.And([m.close(a_, b_, exact=True) for a_, b_ in pairs]), key=f"inputs-modified:{tag}")
            b = get_direction(d, data=data, dx=dx, dy=dy, origin=origin)
    finally:
        D.VectorBasis = realVB
        Vm.VectorBasis = realVB2
        _core.MERGE_MINMAX[0] = True
    # oracle: L = sum over cells with |r| < rad of m r x w   (membership decided on this path)
    if not cfg["dx"]:
        ext = []
        for k in range(3):
            hi, lo = P[k][0], P[k][0]
            for r in range(1, n):
                hi = _ite(m, P[k][r] > hi, P[k][r], hi)
                lo = _ite(m, P[k][r] < lo, P[k][r], lo)
            ext.append(hi - lo)
        radt = (ext[0] + ext[1] + ext[2]) * 0.5 / 3.0
    else:
        radt = m.t(rad)
    L = [m.t(0.0)] * 3
    nin = 0
    for r in range(n):
        rv = [P[k][r] - O[k] for k in range(3)]
        r2 = dot(rv, rv)
        if m.decide(m.And(r2 < radt * radt, radt > 0)):
            nin += 1
            cr = cross(rv, [W[k][r] for k in range(3)])
            L = [L[k] + M[r] * cr[k] for k in range(3)]
    if not m.require("L" in rec, "the basis is built from an angular-momentum vector", key=f"angmom-missing:{tag}"):
        return
    sc = None
    for r in range(n):
        for k in range(3):
            for j in range(3):
                t = m.abs(M[r] * (P[k][r] - O[k]) * W[j][r])
                sc = t if sc is None else sc + t
    m.check("the vector given to the basis is the mass-weighted angular momentum of the cells within the window",
            m.And([m.close(g, e, scale=sc) for g, e in zip(rec["L"], L)]), key=f"angmom-value:{tag}", timeout_ms=60000)
    if not m.symbolic:
        if all(abs(x) == 0 for x in L) and not m.failed:
            from symx.core import Abort
            raise Abort("cut: zero net angular momentum (outside the property's premise)")
    l = rec["l"]
    _finish = lambda: (m.assume(m.Or([m.Not(m.eq(x, 0)) for x in L])) if m.symbolic else None)   # premise; shapes the shadow model
    if d.lower() == "side" and not cfg.get("full"):
        # quick tier: the rolled basis is VectorBasis(n=u0, u=v0, v=n0) of the 'top' basis (n0,u0,v0), which the
        # top configurations prove orthonormal with n0 || L; that VectorBasis(n,u,v) of an orthogonal triple is
        # orthonormal with every vector parallel to the one given is the 'basis' configuration.  Here: the wiring.
        ok = "args" in rolled and rolled["result"] is b
        m.require(ok, "'side' returns the basis rolled from the 'top' basis", key=f"side-roll:{tag}")
        if ok:
            n2, u2, v2 = rolled["args"]
            N0 = comps(m, v2)          # the old normal ends up as v
            parallel(m, tag, N0, l, "the vector rolled into the v slot is the 'top' normal, parallel to the angular momentum", "angmom")
            m.check("the vectors rolled into n and u are perpendicular to it",
                    m.And(m.close(dot(comps(m, n2), N0), 0, scale=1.0, exact=True), m.close(dot(comps(m, u2), N0), 0, scale=1.0, exact=True)),
                    key=f"side-perp:{tag}", timeout_ms=60000)
        _finish()
        return
    N, U, V = comps(m, b.n), comps(m, b.u), comps(m, b.v)
    orthonormal(m, tag, N, U, V)
    if d.lower() == "top":
        parallel(m, tag, N, l, "n parallel to the angular momentum", "angmom")
    else:
        m.check("angular momentum lies in the image plane", m.close(dot(N, l), 0, scale=m.abs(l[0]) + m.abs(l[1]) + m.abs(l[2]), exact=True),
                key=f"angmom-plane:{tag}", timeout_ms=60000)
        parallel(m, tag, V, l, "v parallel to the angular momentum", "angmom")
    _finish()


def _hook_class(real, pre, post=None):
    """A stand-in for the VectorBasis class that IS a class (the code under check may use it in isinstance tests, call
    methods on its instances, ...): a subclass whose constructor passes its arguments through `pre` and reports to `post`;
    instances of the real class count as instances of it."""
    class _Meta(type(real)):
        def __instancecheck__(cls, inst):
            return isinstance(inst, real)

    class Hooked(real, metaclass=_Meta):
        def __init__(self, n, u=None, v=None):
            n, u, v = pre(n, u, v)
            real.__init__(self, n=n, u=u, v=v)
            if post is not None:
                post(self, n, u, v)
    Hooked.__name__ = real.__name__
    return Hooked


def _ite(m, c, a, b):
    if m.symbolic:
        import z3
        return z3.If(c, a, b)
    return a if c else b
