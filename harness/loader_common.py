"""Shared machinery for the loader properties (C01, C04, C12, C13, C14, C15):
symbolic RAMSES files, the struct/open shims with the record-locator obligation, the
builder of test outputs (concrete files for replay, symbolic files for the solver), the tree
oracle and the comparison of a loaded mesh group with it."""
import os
import shutil
import tempfile

import numpy as np

from ramses import layout as RL
from ramses.layout import Rec, Cond, SIZE, Oct

# ----------------------------------------------------------------------------- symbolic files


def _z(x):
    import z3
    from symx.core import SInt, SReal
    if isinstance(x, SInt):
        return x.t
    if isinstance(x, z3.ExprRef):
        return x
    return z3.IntVal(int(x))


class SymFile:
    """A file given as a list of records whose sizes may be symbolic."""

    def __init__(self, recs, name):
        import z3
        self.name = name
        self.recs = recs
        self.pos = []
        p = z3.IntVal(0)
        for r in recs:
            self.pos.append(p)
            if isinstance(r, Rec):
                p = p + 8 + _z(r.count) * SIZE[r.typ]
            else:
                p = p + z3.If(_z(r.n) > 0, _z(r.n) * r.bytes_per_grid() + 8 * r.nrecords(), 0)
            p = z3.simplify(p)
        self.end = p
        self.reads = []

    def __getitem__(self, sl):
        return ("symfile", self, sl.start, sl.stop)

    def __len__(self):
        raise TypeError("length of a symbolic file")


STATS = {"unpacks": 0, "locator_solver": 0, "locator_syntactic": 0}


class StructShim:
    """struct.unpack on a slice of a SymFile: locate the record the slice falls in (under a model of the
    path condition) and PROVE that for all values of the symbolic sizes the slice is record-aligned,
    type-correct and inside the payload (a marker read must hit the record's length field exactly).
    Returns the record's payload symbols."""

    def __init__(self, real_struct):
        self._real = real_struct

    def __getattr__(self, k):
        return getattr(self._real, k)

    def unpack(self, fmt, tok):
        import z3
        from symx import core
        from symx.core import Ctx, SInt, SReal, sym_int
        if not (isinstance(tok, tuple) and len(tok) == 4 and tok[0] == "symfile"):
            return self._real.unpack(fmt, tok)
        _, f, start, stop = tok
        STATS["unpacks"] += 1
        typ = fmt[-1]
        mult = 1 if len(fmt) == 1 else sym_int(fmt[:-1])
        if isinstance(mult, int) and mult == 0:
            return ()                       # a zero-length read touches no byte
        ctx = Ctx.cur
        st = _z(start)
        mdl = ctx.get_model()
        ev = lambda e: core.py_eval(mdl, e)
        stv = ev(st)
        hit = None
        for r, p in zip(f.recs, f.pos):
            if not isinstance(r, Rec):
                continue
            pv = ev(p)
            nbv = ev(_z(r.count)) * SIZE[r.typ]
            if pv <= stv < pv + 8 + nbv:
                hit = (r, p, pv)
                break
        if hit is None:
            ctx.fail(f"read at byte {stv} of {f.name} hits no record (inside a block of foreign grids or past the end)",
                     info={"key": f"locator:{f.name.split('_')[0]}:outside", "info": fmt})
            raise core.Abort("misplaced read")
        r, p, pv = hit
        kind = f.name.split("_")[0]
        if stv == pv or stv == pv + 4 + ev(_z(r.count)) * SIZE[r.typ]:
            # a record marker
            claim = (st == p)
            what = f"marker of {r.name}"
            ok_type = (typ == "i" and (isinstance(mult, int) and mult == 1))
            val = (SInt(z3.simplify(_z(r.count) * SIZE[r.typ])),) if not isinstance(r.count, int) else (r.count * SIZE[r.typ],)
            if not ok_type or stv != pv:
                ctx.fail(f"marker of {r.name} read as '{fmt}'", info={"key": f"locator:{kind}:marker-type", "info": r.name})
                raise core.Abort("misplaced read")
        else:
            k = (stv - pv - 4) // SIZE[r.typ]
            claim = (st == p + 4 + k * SIZE[r.typ])
            what = f"{r.name}[{k}:{k}+{mult}]"
            if typ != r.typ:
                ctx.fail(f"'{fmt}' read from record {r.name} of type '{r.typ}'", info={"key": f"locator:{kind}:type", "info": r.name})
                raise core.Abort("misplaced read")
            if not isinstance(mult, int):
                mult = mult.__index__()
            cnt = r.count if isinstance(r.count, int) else None
            if cnt is not None and k + mult > cnt:
                ctx.fail(f"read of {mult} items overruns record {r.name} ({cnt} items)", info={"key": f"locator:{kind}:overrun", "info": r.name})
                raise core.Abort("misplaced read")
            if cnt is None:
                claim = z3.And(claim, k + mult <= _z(r.count))
            if r.payload is None:
                val = tuple(0 if typ in "ibq" else 0.0 for _ in range(mult))
            else:
                val = tuple(r.payload[k + j] for j in range(mult))
                val = tuple((0 if typ in "ibq" else 0.0) if v is None else v for v in val)
        f.reads.append(what)
        # the locator obligation: for ALL values of the symbolic sizes
        cs = z3.simplify(claim)
        if z3.is_true(cs):
            STATS["locator_syntactic"] += 1
            ctx.ok("record-aligned read: " + what if False else "locator")
        else:
            STATS["locator_solver"] += 1
            r_ = ctx.prove(claim, "every read is record-aligned, type-correct and in bounds for all header/ghost sizes",
                           info={"key": f"locator:{kind}:{r.name.split(':')[-1].rstrip('0123456789')}", "info": what})
            if r_ != "unsat":
                raise core.Abort("misplaced read")
        return val


class FileShim:
    """open() replacement: virtual binary files by basename, everything else real."""

    def __init__(self, files, opened):
        self.files, self.opened = files, opened

    def __call__(self, fname, mode="r", *a, **k):
        b = os.path.basename(str(fname))
        if "b" in mode:
            self.opened.append(b)
        if b in self.files:
            return _FakeHandle(self.files[b])
        return open(fname, mode, *a, **k)


class _FakeHandle:
    def __init__(self, f):
        self.f = f

    def __enter__(self):
        return self

    def __exit__(self, *a):
        return False

    def read(self):
        return self.f


# ----------------------------------------------------------------------------- factories


class SymF:
    """Payload factory, symbolic mode: named z3 symbols registered with the Mode (so that replays get
    their values)."""

    def __init__(self, m):
        self.m = m

    def int(self, name, **kw):
        return self.m.int(name, **kw)

    def real(self, name, **kw):
        return self.m.real(name, **kw)


# ----------------------------------------------------------------------------- test outputs


HYDRO_SETS = {
    "hd": ["density", "velocity_x", "velocity_y", "velocity_z", "pressure"],
    "two": ["density", "pressure"],
    "mhd": ["density", "velocity_x", "velocity_y", "velocity_z", "B_x_left", "B_y_left", "B_z_left", "B_x_right", "B_y_right",
            "B_z_right", "thermal_pressure", "radiative_energy_1", "passive_scalar_1"],
    # the remaining names of osyris' unit library, a numbered group with two digits and names containing digits / x
    "alt": ["density", "momentum_x", "momentum_y", "momentum_z", "internal_energy", "temperature", "energy", "radiative_energy_12",
            "scalar_00", "xray_flux"],
}


def hydro_vars(name, ndim):
    comps = "xyz"[:ndim]
    out = []
    for v in HYDRO_SETS[name]:
        if len(v) > 2 and (v.endswith(("_x", "_y", "_z")) or "_x_" in v or "_y_" in v or "_z_" in v):
            c = v[-1] if v[-2] == "_" else v.split("_")[1]
            if c not in comps:
                continue
        out.append(v)
    return out


def grav_vars(ndim):
    return ["grav_potential"] + ["grav_acceleration_" + c for c in "xyz"[:ndim]]


class Output:
    """A RAMSES output directory under construction + its tree oracle."""

    def __init__(self, m, cfg):
        self.m = m
        self.cfg = cfg
        self.F = SymF(m)
        self.ndim = cfg["ndim"]
        self.two = 2 ** self.ndim
        self.root = tempfile.mkdtemp(prefix="symx_ramses_")
        self.nout = cfg.get("nout", 1)
        self.dir = os.path.join(self.root, "output_" + str(self.nout).zfill(5))
        os.makedirs(self.dir)
        self.octs = []
        self.kinds = {}          # kind -> variable names
        self.files = {}
        self.opened = []

    def cleanup(self):
        shutil.rmtree(self.root, ignore_errors=True)

    # --- tree -------------------------------------------------------------
    def xbound(self):
        return [float(int(n / 2)) for n in self.cfg["nxyz"]][: self.ndim]

    def new_oct(self, level, centre_code, owner, tag):
        """centre_code: centre in coarse-grid units (floats); the stored xg are symbols constrained to it
        only in the oracle comparison (the loader must use whatever is on disk)."""
        m = self.m
        xg = [m.real(f"{tag}_xg{k}") for k in range(self.ndim)]
        o = Oct(level, xg, owner, self.ndim)
        o.tag = tag
        o.centre_code = centre_code
        self.octs.append(o)
        return o

    def refine(self, parent, ind, owner, tag):
        ndim = self.ndim
        off = [((ind >> k) & 1) - 0.5 for k in range(ndim)]
        h = 0.5 ** parent.level
        centre = [parent.centre_code[k] + off[k] * h for k in range(ndim)]
        child = self.new_oct(parent.level + 1, centre, owner, tag)
        parent.son[ind] = child
        s = self.m.int(f"{parent.tag}_son{ind}", lo=1)
        parent.sonidx[ind] = s
        return child

    def fill_values(self, kind, names):
        self.kinds[kind] = list(names)
        for o in self.octs:
            o.vals[kind] = {v: [self.m.real(f"{o.tag}_{kind[0]}_{v}_{i}") for i in range(self.two)] for v in names}
        # provenance labels: the stored values of each variable are pairwise distinct and non-zero
        import numpy as _np
        for v in names:
            allv = [x for o in self.octs for x in o.vals[kind][v]]
            if self.m.symbolic:
                from symx.arr import sarray
                self.m.distinct(sarray(allv + [0.0], "float64"))
            else:
                self.m.distinct(_np.array(allv + [0.0], dtype=float))

    # --- files ------------------------------------------------------------
    def build(self, ghosts="symbolic", ncpu_files=None):
        """Create info/descriptor text files (real) and the binary files: SymFiles in symbolic mode, real
        files in concrete mode.  ghosts: 'symbolic' | 'zero' | 'positive'"""
        m, cfg = self.m, self.cfg
        ncpu, L, nb = cfg["ncpu"], cfg["levelmax"], cfg["nboundary"]
        num = str(self.nout).zfill(5)
        RL.write_info(cfg, self.dir, self.nout, cfg.get("bound_keys"))
        for kind, names in self.kinds.items():
            if kind in ("hydro", "rt"):
                RL.write_descriptor(self.dir, kind, names)
        noutput = m.int("noutput", lo=1, hi=(None if m.symbolic else 50))
        key_size = m.int("key_size", lo=0, hi=(None if m.symbolic else 400))
        fcfg = dict(cfg, noutput=noutput, key_size=key_size)
        # cfg["ghost_window"] = [start, count, fill]: with ghosts='symbolic' only the slots start..start+count-1 of each file
        # (numbered in (domain, level) order) stay free; the others hold exactly `fill` foreign grids (bounds the 2^slots patterns)
        win = cfg.get("ghost_window")
        for icpu in range(ncpu):
            octs = {}
            slot = 0
            for dom in range(ncpu + nb):
                octs[dom] = []
                for l in range(L):
                    if dom == icpu:
                        octs[dom].append([o for o in self.octs if o.owner == icpu and o.level == l + 1])
                    else:
                        g = m.int(f"ghost_f{icpu}_d{dom}_l{l}", lo=0, hi=(None if m.symbolic else 3))
                        if ghosts == "zero":
                            m.assume(m.eq(g, 0))
                        elif ghosts == "positive":
                            m.assume(m.gt(g, 0))
                        elif win is not None and not (win[0] <= slot < win[0] + win[1]):
                            m.assume(m.eq(g, win[2]))
                        slot += 1
                        octs[dom].append(g)
            recs = {"amr": RL.amr_records(fcfg, octs, self.F)}
            for kind, names in self.kinds.items():
                if kind in ("hydro", "grav", "rt"):
                    recs[kind] = RL.var_records(fcfg, kind, names, octs, self.F)
            for kind, rr in recs.items():
                fname = f"{kind}_{num}.out{icpu + 1:05d}"
                if m.symbolic:
                    self.files[fname] = SymFile(rr, f"{kind}_{icpu + 1}")
                    open(os.path.join(self.dir, fname), "wb").close()       # placeholder: osyris tests os.path.exists
                else:
                    RL.write_concrete([_conc_rec(r) for r in rr], os.path.join(self.dir, fname))
        return self

    # --- particles and sinks ------------------------------------------------
    def add_particles(self, columns, npart):
        """columns: list of (name, typ) with typ in d/i/b; npart: list of particle counts per cpu (concrete).
        Payloads and the lengths of the five skipped header records are symbolic."""
        m = self.m
        self.part_columns = list(columns)
        self.npart = list(npart)
        self.part_vals = {}
        for icpu, n in enumerate(npart):
            for name, typ in columns:
                if typ == "d":
                    vals = [m.real(f"p{icpu}_{name}_{j}") for j in range(n)]
                elif typ == "i":
                    vals = [m.int(f"p{icpu}_{name}_{j}", lo=-1000, hi=1000) for j in range(n)]
                else:
                    vals = [m.int(f"p{icpu}_{name}_{j}", lo=-100, hi=100) for j in range(n)]
                self.part_vals[(icpu, name)] = vals
        self.part_header = [[m.int(f"p{icpu}_hdr{j}", lo=0, hi=(None if m.symbolic else 64)) for j in range(5)] for icpu in range(len(npart))]
        return self

    def build_particles(self):
        m = self.m
        num = str(self.nout).zfill(5)
        RL.write_descriptor(self.dir, "part", [c[0] for c in self.part_columns], [c[1] for c in self.part_columns])
        for icpu, n in enumerate(self.npart):
            cols = [(name, typ, self.part_vals[(icpu, name)]) for name, typ in self.part_columns]
            recs = RL.part_records(self.cfg, cols, n, self.part_header[icpu], self.F)
            fname = f"part_{num}.out{icpu + 1:05d}"
            if m.symbolic:
                self.files[fname] = SymFile(recs, f"part_{icpu + 1}")
                open(os.path.join(self.dir, fname), "wb").close()
            else:
                RL.write_concrete([_conc_rec(r) for r in recs], os.path.join(self.dir, fname))
        return self

    def add_sinks(self, columns, units_line, nsink, legacy=False):
        """columns: names; units_line: list of unit expressions (one per column); values symbolic.
        Concrete mode writes the CSV; symbolic mode keeps the header lines real and serves the data block through
        the loadtxt stub (see sink_loadtxt)."""
        m = self.m
        self.sink_columns, self.sink_units, self.nsink = list(columns), list(units_line), nsink
        self.sink_vals = [[m.real(f"sink{r}_{c}") for c in columns] for r in range(nsink)] if nsink and nsink > 0 else []
        num = str(self.nout).zfill(5)
        fname = os.path.join(self.dir, f"sink_{num}.csv")
        self.sink_file = fname
        if nsink is None:
            return self                       # no sink file at all
        with open(fname, "w") as f:
            if nsink < 0:
                return self                   # empty file
            f.write(" # " + ",".join(columns) + "\n")
            f.write(" # " + ",".join(units_line) + "\n")
            for row in self.sink_vals:
                if m.symbolic:
                    f.write(",".join("0.0" for _ in row) + "\n")      # placeholder rows (shape only)
                else:
                    f.write(",".join(repr(float(v)) for v in row) + "\n")
        return self

    def sink_loadtxt(self, real_loadtxt):
        """np.loadtxt by its documented contract for the sink file: a float array (nsink, ncol), or (ncol,) when
        there is a single data row -- with symbolic entries."""
        from symx.arr import sarray
        out = self

        def loadtxt(fname, *a, **k):
            if os.path.abspath(str(fname)) == os.path.abspath(out.sink_file) and out.m.symbolic and k.get("dtype", float) is not str:
                rows = [[v for v in row] for row in out.sink_vals]
                arr = sarray(rows if len(rows) != 1 else rows[0], "float64")
                return arr
            return real_loadtxt(fname, *a, **k)
        return loadtxt

    # --- oracle -----------------------------------------------------------
    def leaves(self, lmax=None):
        """(oct, ind) of the leaf cells of the tree truncated at level lmax (default: full tree)."""
        out = []
        for o in self.octs:
            if lmax is not None and o.level > lmax:
                continue
            for ind in range(self.two):
                refined = o.son[ind] is not None and (lmax is None or o.level < lmax)
                if not refined:
                    out.append((o, ind))
        return out


def _conc_rec(r):
    if isinstance(r, Cond):
        return Cond(r.name, int(r.n), r.parts)
    return Rec(r.name, r.typ, int(r.count), None if r.payload is None else [0 if v is None else v for v in r.payload])


def install_shims(out):
    """Rebind struct / open in the osyris io modules (symbolic mode)."""
    from symx import install
    import struct as _struct
    U = install.mod("osyris.io.utils")
    Ld = install.mod("osyris.io.loader")
    saved = (U.__dict__.get("struct"), Ld.__dict__.get("open", None))
    U.struct = StructShim(_struct)
    Ld.open = FileShim(out.files, out.opened)
    return saved


def remove_shims(saved):
    from symx import install
    U = install.mod("osyris.io.utils")
    Ld = install.mod("osyris.io.loader")
    U.struct = saved[0]
    if saved[1] is None:
        Ld.__dict__.pop("open", None)
    else:
        Ld.open = saved[1]


class quiet:
    def __enter__(self):
        import io
        import contextlib
        self.cm = contextlib.redirect_stdout(io.StringIO())
        self.cm.__enter__()

    def __exit__(self, *a):
        return self.cm.__exit__(*a)


# ----------------------------------------------------------------------------- physical units oracle


def unit_factors(cfg):
    """CGS factor and dimension of the code units implied by unit_d/unit_l/unit_t -- from dimensional
    analysis (independent of osyris' configure_units)."""
    import math
    d, l, t = cfg["unit_d"], cfg["unit_l"], cfg["unit_t"]
    v = l / t
    return {
        "density": (d, (-3, 1, 0, 0, 0)),
        "velocity": (v, (1, 0, -1, 0, 0)),
        "momentum": (d * v, (-2, 1, -1, 0, 0)),
        "pressure": (d * v * v, (-1, 1, -2, 0, 0)),            # energy density
        "length": (l, (1, 0, 0, 0, 0)),
        "time": (t, (0, 0, 1, 0, 0)),
        "acceleration": (l / t / t, (1, 0, -2, 0, 0)),
        "potential": (v * v, (2, 0, -2, 0, 0)),
        "mass": (d * l ** 3, (0, 1, 0, 0, 0)),
        "B": (math.sqrt(4.0 * math.pi * d * v * v), (0, 0, 0, 0, 1)),     # gauss
        "temperature": (1.0, (0, 0, 0, 1, 0)),
        "none": (1.0, (0, 0, 0, 0, 0)),
    }


def var_class(name):
    """Physical class of a stored variable name (what the number on disk means)."""
    if name == "density":
        return "density"
    if name.startswith("velocity"):
        return "velocity"
    if name.startswith("momentum"):
        return "momentum"
    if name in ("pressure", "thermal_pressure", "internal_energy", "energy") or name.startswith("radiative_energy"):
        return "pressure"
    if name.startswith("B_"):
        return "B"
    if name == "temperature":
        return "temperature"
    if name == "grav_potential":
        return "potential"
    if name.startswith("grav_acceleration"):
        return "acceleration"
    if name in ("dx",) or name.startswith("position"):
        return "length"
    return "none"
