"""CrossHair contract for C13: make_vector_arrays merges x/y/z components into a vector only
when all components for the output's dimensionality are present, and loses or renames no
other variable.  Key strings are symbolic (<= 3 characters over a small alphabet) next to a
fixed component family; values are stand-ins and the Vector constructor is replaced by a
recording stand-in (the payload is irrelevant to naming)."""
from typing import List

import osyris.io.utils as U


class _Val:
    def __init__(self, tag):
        self.tag = tag


class _Vec:
    def __init__(self, **comps):
        self.comps = comps


U.Vector = _Vec          # constructor stand-in: records the components it is given

ALPHA = "xyz_ab"


def _ok_key(k):
    return 1 <= len(k) <= 3 and all(c in ALPHA for c in k)


def _merge_keeps_other_variables(base, other, ndim, present):
    comps = "xyz"[:ndim]
    names = [base + "_" + c for c in "xyz"]
    data = {}
    vals = {}
    for i, nme in enumerate(names):
        if (present // (2 ** i)) % 2 == 1:
            v = _Val(nme)
            data[nme] = v
            vals[nme] = v
    if other in names:
        return True           # `other` must be a variable outside the component family
    ov = _Val(other)
    data[other] = ov
    U.make_vector_arrays(data, ndim=ndim)
    all_present = ndim > 1 and all((base + "_" + c) in vals for c in comps)
    # is `other` itself a component family member of some other complete family?  (it is a single key: no)
    if all_present:
        # merged under the family name, components removed, carrying the right component objects
        if base not in data or not isinstance(data[base], _Vec):
            # the only admissible reason: the family name is taken by another variable, which must then survive
            if not (other == base and data.get(base) is ov and all((base + "_" + c) in data for c in comps)):
                return False
        else:
            if any((base + "_" + c) in data for c in comps):
                return False
            if any(data[base].comps.get(c) is not vals[base + "_" + c] for c in comps) or len(data[base].comps) != ndim:
                return False
    else:
        # not all components: every one that was there is still there, unmerged, same object
        if any(data.get(k) is not v for k, v in vals.items()):
            return False
        if base in data and other != base:
            return False
    # components beyond ndim (e.g. *_z in a 2-D output) are never touched
    for i, c in enumerate("xyz"):
        k = base + "_" + c
        if c not in comps and k in vals and data.get(k) is not vals[k]:
            return False
    # the other variable is neither lost nor renamed (unless it is one of the merged components' names, excluded above)
    return data.get(other) is ov


def infix_components_merge(ndim: int, present: int) -> bool:
    """
    pre: 2 <= ndim <= 3 and 0 <= present < 8
    post: _
    """
    comps = "xyz"[:ndim]
    data, vals = {}, {}
    for i, c in enumerate("xyz"):
        if (present // (2 ** i)) % 2 == 1:
            k = "B_" + c + "_left"
            vals[k] = data[k] = _Val(k)
    keep = _Val("density")
    data["density"] = keep
    U.make_vector_arrays(data, ndim=ndim)
    allp = all(("B_" + c + "_left") in vals for c in comps)
    if allp:
        if "B_left" not in data or any(data["B_left"].comps.get(c) is not vals["B_" + c + "_left"] for c in comps):
            return False
        if any(("B_" + c + "_left") in data for c in comps):
            return False
    else:
        if "B_left" in data or any(data.get(k) is not v for k, v in vals.items()):
            return False
    return data.get("density") is keep


def bare_xyz_become_position(ndim: int, underscore: bool) -> bool:
    """
    pre: 2 <= ndim <= 3
    post: _
    """
    pre = "_" if underscore else ""
    comps = "xyz"[:ndim]
    data = {pre + c: _Val(c) for c in comps}
    vals = dict(data)
    data["mass"] = m = _Val("mass")
    U.make_vector_arrays(data, ndim=ndim)
    return ("position" in data and all(data["position"].comps.get(c) is vals[pre + c] for c in comps)
            and not any((pre + c) in data for c in comps) and data.get("mass") is m)


import itertools as _it

# all 42 names of <= 2 characters over the alphabet, plus names that can clash with a merged vector
OTHERS = ["".join(t) for n in (1, 2) for t in _it.product(ALPHA, repeat=n)] + ["position", "ab", "b", "a_b", "b_a", "xyz", "b_xx"]


def merge_b_1d(oi: int, present: int) -> bool:
    """
    pre: 0 <= oi < 49
    pre: 0 <= present < 8
    post: _
    """
    return _merge_keeps_other_variables("b", OTHERS[oi], 1, present)


def merge_b_2d(oi: int, present: int) -> bool:
    """
    pre: 0 <= oi < 49
    pre: 0 <= present < 8
    post: _
    """
    return _merge_keeps_other_variables("b", OTHERS[oi], 2, present)


def merge_b_3d(oi: int, present: int) -> bool:
    """
    pre: 0 <= oi < 49
    pre: 0 <= present < 8
    post: _
    """
    return _merge_keeps_other_variables("b", OTHERS[oi], 3, present)


def merge_ab_1d(oi: int, present: int) -> bool:
    """
    pre: 0 <= oi < 49
    pre: 0 <= present < 8
    post: _
    """
    return _merge_keeps_other_variables("ab", OTHERS[oi], 1, present)


def merge_ab_2d(oi: int, present: int) -> bool:
    """
    pre: 0 <= oi < 49
    pre: 0 <= present < 8
    post: _
    """
    return _merge_keeps_other_variables("ab", OTHERS[oi], 2, present)


def merge_ab_3d(oi: int, present: int) -> bool:
    """
    pre: 0 <= oi < 49
    pre: 0 <= present < 8
    post: _
    """
    return _merge_keeps_other_variables("ab", OTHERS[oi], 3, present)


# family names that themselves contain the letters x / y / z before the component letter (flux_x, max_y, ...): the
# merge must find the component position among several candidate positions
BASES = ["flux", "max", "xa", "ax", "x", "xx", "x_x", "xray_flux", "y", "yx", "zx_y", "a_x"]


def merge_bases_with_component_letters_2d(bi: int, present: int) -> bool:
    """
    pre: 0 <= bi < 12
    pre: 0 <= present < 8
    post: _
    """
    return _merge_keeps_other_variables(BASES[bi], "density", 2, present)


def merge_bases_with_component_letters_3d(bi: int, present: int) -> bool:
    """
    pre: 0 <= bi < 12
    pre: 0 <= present < 8
    post: _
    """
    return _merge_keeps_other_variables(BASES[bi], "density", 3, present)
