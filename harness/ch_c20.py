"""CrossHair contracts for C20: one inductive step of dictionary semantics.

The pre-state is an ARBITRARY insertion-ordered container over the key alphabet {a,b,c}
satisfying the representation invariant (every value named after its key, equal shapes for a
Datagroup; every value a Datagroup linked to its Dataset), built directly in the private
dict so that no history has to be explored; then ONE operation with arbitrary arguments is
applied to the real osyris object and to a Python dict model, and result, exception and
post-state must agree and the invariant must be re-established.  Because the invariant is
inductive this covers operation sequences of any length.
"""
from typing import List

from osyris import Datagroup, Dataset

KEYS = "abc"


class Val:
    """Stand-in for an Array/Vector: Datagroup only looks at .shape and sets .name."""

    def __init__(self, n):
        self.shape = (n,)
        self.name = ""


def _mk_group(pre, n0):
    dg = Datagroup()
    model = {}
    for p in pre:
        v = Val(n0)
        v.name = KEYS[p]
        dg._container[KEYS[p]] = v
        model[KEYS[p]] = v
    return dg, model


def _same(dg, model):
    if list(dg.keys()) != list(model.keys()):
        return False
    if len(dg) != len(model):
        return False
    if [k for k in dg] != list(model):
        return False
    for q in model:
        if dg[q] is not model[q] or dg[q].name != q:
            return False
        if q not in dg:
            return False
    if [v for v in dg.values()] != list(model.values()):
        return False
    if [k for k, _ in dg.items()] != list(model):
        return False
    return True


def _datagroup_step(pre, n0, op, k, n, k2, n2):
    dg, model = _mk_group(pre, n0)
    key = KEYS[k]
    if op == 0:          # set: accepted iff aligned (or group empty); rejected leaves group unchanged
        v = Val(n)
        try:
            dg[key] = v
            ok = True
        except ValueError:
            ok = False
        if ok != ((not model) or n == n0):
            return False
        if ok:
            model[key] = v
    elif op == 1:        # del
        try:
            del dg[key]
            ok = True
        except KeyError:
            ok = False
        if ok != (key in model):
            return False
        model.pop(key, None)
    elif op == 2:        # pop
        try:
            r = dg.pop(key)
            ok = True
        except KeyError:
            ok = False
        if ok != (key in model):
            return False
        if ok and r is not model.pop(key):
            return False
    elif op == 3:        # get with default
        sentinel = Val(9)
        if dg.get(key, sentinel) is not model.get(key, sentinel):
            return False
    elif op == 4:        # clear
        dg.clear()
        model.clear()
    elif op == 5:        # copy: shallow, independent container
        c = dg.copy()
        if c is dg or list(c.keys()) != list(model.keys()) or any(c[q] is not model[q] for q in model):
            return False
        if len(model) > 0:
            first = list(model)[0]
            del c[first]
            if first not in dg:
                return False
    elif op == 6:        # update with two items under distinct keys (either may be mis-shaped)
        v1, v2 = Val(n), Val(n2)
        key2 = KEYS[(k + 1) % 3]
        try:
            dg.update({key: v1, key2: v2})
            ok = True
        except ValueError:
            ok = False
        # model: insertion one by one, each judged against the state at that moment
        ok1 = (not model) or n == n0
        if ok1:
            model[key] = v1
            ok2 = (n2 == n) if len(model) == 1 and not pre else (n2 == n0)
            if ok2:
                model[key2] = v2
        exp_ok = ok1 and ok2 if ok1 else False
        if ok != exp_ok:
            return False
    elif op == 7:        # membership / lookup of a missing key
        if (key in dg) != (key in model):
            return False
        try:
            dg[key]
            found = True
        except KeyError:
            found = False
        if found != (key in model):
            return False
    if not _same(dg, model):
        return False
    shapes = set(v.shape for v in dg.values())
    return len(shapes) <= 1


def _mk_dataset(pre):
    ds = Dataset()
    model = {}
    for p in pre:
        g = Datagroup()
        g.name = KEYS[p]
        g.parent = ds
        ds.groups[KEYS[p]] = g
        model[KEYS[p]] = g
    return ds, model


def _same_ds(ds, model):
    if list(ds.keys()) != list(model.keys()) or len(ds) != len(model):
        return False
    if [k for k in ds] != list(model):
        return False
    for q in model:
        if ds[q] is not model[q] or ds[q].name != q or ds[q].parent is not ds:
            return False
    if [v for v in ds.values()] != list(model.values()):
        return False
    if [k for k, _ in ds.items()] != list(model):
        return False
    return True


def _dataset_step(pre, op, k, isgroup, k2, meta):
    ds, model = _mk_dataset(pre)
    ds.meta["time"] = meta
    key = KEYS[k]
    if op == 0:          # set: only Datagroups are accepted
        v = Datagroup() if isgroup else meta
        try:
            ds[key] = v
            ok = True
        except TypeError:
            ok = False
        if ok != isgroup:
            return False
        if ok:
            model[key] = v
    elif op == 1:
        try:
            del ds[key]
            ok = True
        except KeyError:
            ok = False
        if ok != (key in model):
            return False
        model.pop(key, None)
    elif op == 2:
        try:
            r = ds.pop(key)
            ok = True
        except KeyError:
            ok = False
        if ok != (key in model):
            return False
        if ok and r is not model.pop(key):
            return False
    elif op == 3:
        sentinel = Datagroup()
        if ds.get(key, sentinel) is not model.get(key, sentinel):
            return False
    elif op == 4:        # clear also clears the metadata
        ds.clear()
        model.clear()
        if len(ds.meta) != 0:
            return False
    elif op == 5:        # copy: shallow, meta copied
        c = ds.copy()
        if c is ds or list(c.keys()) != list(model.keys()) or any(c[q] is not model[q] for q in model):
            return False
        if c.meta != ds.meta or c.meta is ds.meta:
            return False
        for q in model:          # copy() re-parents the shared groups: restore the link for the invariant check
            model[q].parent = ds
    elif op == 6:        # update: dict + kwargs
        g1, g2 = Datagroup(), Datagroup()
        key2 = KEYS[k2]
        ds.update({key: g1}, **{key2: g2})
        model[key] = g1
        model[key2] = g2
    elif op == 7:
        if (key in ds) != (key in model):
            return False
        try:
            ds[key]
            found = True
        except KeyError:
            found = False
        if found != (key in model):
            return False
    return _same_ds(ds, model)


def datagroup_set(pre: List[int], n0: int, k: int, n: int, k2: int, n2: int) -> bool:
    """
    pre: len(pre) <= 3 and all(0 <= p <= 2 for p in pre) and len(set(pre)) == len(pre)
    pre: 1 <= n0 <= 2 and 1 <= n <= 2 and 1 <= n2 <= 2 and 0 <= k <= 2 and 0 <= k2 <= 2
    post: _
    """
    return _datagroup_step(pre, n0, 0, k, n, k2, n2)


def datagroup_del(pre: List[int], n0: int, k: int, n: int, k2: int, n2: int) -> bool:
    """
    pre: len(pre) <= 3 and all(0 <= p <= 2 for p in pre) and len(set(pre)) == len(pre)
    pre: 1 <= n0 <= 2 and 1 <= n <= 2 and 1 <= n2 <= 2 and 0 <= k <= 2 and 0 <= k2 <= 2
    post: _
    """
    return _datagroup_step(pre, n0, 1, k, n, k2, n2)


def datagroup_pop(pre: List[int], n0: int, k: int, n: int, k2: int, n2: int) -> bool:
    """
    pre: len(pre) <= 3 and all(0 <= p <= 2 for p in pre) and len(set(pre)) == len(pre)
    pre: 1 <= n0 <= 2 and 1 <= n <= 2 and 1 <= n2 <= 2 and 0 <= k <= 2 and 0 <= k2 <= 2
    post: _
    """
    return _datagroup_step(pre, n0, 2, k, n, k2, n2)


def datagroup_get(pre: List[int], n0: int, k: int, n: int, k2: int, n2: int) -> bool:
    """
    pre: len(pre) <= 3 and all(0 <= p <= 2 for p in pre) and len(set(pre)) == len(pre)
    pre: 1 <= n0 <= 2 and 1 <= n <= 2 and 1 <= n2 <= 2 and 0 <= k <= 2 and 0 <= k2 <= 2
    post: _
    """
    return _datagroup_step(pre, n0, 3, k, n, k2, n2)


def datagroup_clear(pre: List[int], n0: int, k: int, n: int, k2: int, n2: int) -> bool:
    """
    pre: len(pre) <= 3 and all(0 <= p <= 2 for p in pre) and len(set(pre)) == len(pre)
    pre: 1 <= n0 <= 2 and 1 <= n <= 2 and 1 <= n2 <= 2 and 0 <= k <= 2 and 0 <= k2 <= 2
    post: _
    """
    return _datagroup_step(pre, n0, 4, k, n, k2, n2)


def datagroup_copy(pre: List[int], n0: int, k: int, n: int, k2: int, n2: int) -> bool:
    """
    pre: len(pre) <= 3 and all(0 <= p <= 2 for p in pre) and len(set(pre)) == len(pre)
    pre: 1 <= n0 <= 2 and 1 <= n <= 2 and 1 <= n2 <= 2 and 0 <= k <= 2 and 0 <= k2 <= 2
    post: _
    """
    return _datagroup_step(pre, n0, 5, k, n, k2, n2)


def datagroup_update(pre: List[int], n0: int, k: int, n: int, k2: int, n2: int) -> bool:
    """
    pre: k2 == 0
    pre: len(pre) <= 3 and all(0 <= p <= 2 for p in pre) and len(set(pre)) == len(pre)
    pre: 1 <= n0 <= 2 and 1 <= n <= 2 and 1 <= n2 <= 2 and 0 <= k <= 2 and 0 <= k2 <= 2
    post: _
    """
    return _datagroup_step(pre, n0, 6, k, n, k2, n2)


def datagroup_lookup(pre: List[int], n0: int, k: int, n: int, k2: int, n2: int) -> bool:
    """
    pre: len(pre) <= 3 and all(0 <= p <= 2 for p in pre) and len(set(pre)) == len(pre)
    pre: 1 <= n0 <= 2 and 1 <= n <= 2 and 1 <= n2 <= 2 and 0 <= k <= 2 and 0 <= k2 <= 2
    post: _
    """
    return _datagroup_step(pre, n0, 7, k, n, k2, n2)


def dataset_set(pre: List[int], k: int, isgroup: bool, k2: int, meta: int) -> bool:
    """
    pre: len(pre) <= 3 and all(0 <= p <= 2 for p in pre) and len(set(pre)) == len(pre)
    pre: 0 <= k <= 2 and 0 <= k2 <= 2
    post: _
    """
    return _dataset_step(pre, 0, k, isgroup, k2, meta)


def dataset_del(pre: List[int], k: int, isgroup: bool, k2: int, meta: int) -> bool:
    """
    pre: len(pre) <= 3 and all(0 <= p <= 2 for p in pre) and len(set(pre)) == len(pre)
    pre: 0 <= k <= 2 and 0 <= k2 <= 2
    post: _
    """
    return _dataset_step(pre, 1, k, isgroup, k2, meta)


def dataset_pop(pre: List[int], k: int, isgroup: bool, k2: int, meta: int) -> bool:
    """
    pre: len(pre) <= 3 and all(0 <= p <= 2 for p in pre) and len(set(pre)) == len(pre)
    pre: 0 <= k <= 2 and 0 <= k2 <= 2
    post: _
    """
    return _dataset_step(pre, 2, k, isgroup, k2, meta)


def dataset_get(pre: List[int], k: int, isgroup: bool, k2: int, meta: int) -> bool:
    """
    pre: len(pre) <= 3 and all(0 <= p <= 2 for p in pre) and len(set(pre)) == len(pre)
    pre: 0 <= k <= 2 and 0 <= k2 <= 2
    post: _
    """
    return _dataset_step(pre, 3, k, isgroup, k2, meta)


def dataset_clear(pre: List[int], k: int, isgroup: bool, k2: int, meta: int) -> bool:
    """
    pre: len(pre) <= 3 and all(0 <= p <= 2 for p in pre) and len(set(pre)) == len(pre)
    pre: 0 <= k <= 2 and 0 <= k2 <= 2
    post: _
    """
    return _dataset_step(pre, 4, k, isgroup, k2, meta)


def dataset_copy(pre: List[int], k: int, isgroup: bool, k2: int, meta: int) -> bool:
    """
    pre: len(pre) <= 3 and all(0 <= p <= 2 for p in pre) and len(set(pre)) == len(pre)
    pre: 0 <= k <= 2 and 0 <= k2 <= 2
    post: _
    """
    return _dataset_step(pre, 5, k, isgroup, k2, meta)


def dataset_update(pre: List[int], k: int, isgroup: bool, k2: int, meta: int) -> bool:
    """
    pre: len(pre) <= 3 and all(0 <= p <= 2 for p in pre) and len(set(pre)) == len(pre)
    pre: 0 <= k <= 2 and 0 <= k2 <= 2
    post: _
    """
    return _dataset_step(pre, 6, k, isgroup, k2, meta)


def dataset_lookup(pre: List[int], k: int, isgroup: bool, k2: int, meta: int) -> bool:
    """
    pre: len(pre) <= 3 and all(0 <= p <= 2 for p in pre) and len(set(pre)) == len(pre)
    pre: 0 <= k <= 2 and 0 <= k2 <= 2
    post: _
    """
    return _dataset_step(pre, 7, k, isgroup, k2, meta)


def _history_state(pre, n0, rem_mask, use_pop, read_shape):
    """A pre-state reached THROUGH THE PUBLIC API: insert the keys of `pre` (all of length n0), optionally read
    .shape, then remove the keys selected by rem_mask with pop() or del.  Hidden state (caches ...) is whatever
    the implementation made of that history."""
    dg = Datagroup()
    model = {}
    for p in pre:
        v = Val(n0)
        dg[KEYS[p]] = v
        model[KEYS[p]] = v
    if read_shape:
        if dg.shape != ((n0,) if model else ()):
            return None, None
    for i, p in enumerate(pre):
        if (rem_mask // (2 ** i)) % 2 == 1:
            if use_pop:
                dg.pop(KEYS[p])
            else:
                del dg[KEYS[p]]
            del model[KEYS[p]]
    return dg, model


def _set_after_history(pre, n0, r0, r1, use_pop, read_shape, k, n):
    rem_mask = (1 if r0 else 0) + (2 if r1 else 0)
    dg, model = _history_state(pre, n0, rem_mask, use_pop, read_shape)
    if dg is None:
        return False
    if dg.shape != ((n0,) if model else ()):
        return False
    key = KEYS[k]
    v = Val(n)
    try:
        dg[key] = v
        ok = True
    except ValueError:
        ok = False
    if ok != ((not model) or n == n0):
        return False
    if ok:
        model[key] = v
    return _same(dg, model) and len(set(x.shape for x in dg.values())) <= 1


def datagroup_set_after_pop_history_shape(pre: List[int], n0: int, r0: bool, r1: bool, k: int, n: int) -> bool:
    """
    pre: len(pre) <= 2 and all(0 <= p <= 2 for p in pre) and len(set(pre)) == len(pre)
    pre: 1 <= n0 <= 2 and 1 <= n <= 2 and 0 <= k <= 2
    post: _
    """
    return _set_after_history(pre, n0, r0, r1, True, True, k, n)


def datagroup_set_after_pop_history_noshape(pre: List[int], n0: int, r0: bool, r1: bool, k: int, n: int) -> bool:
    """
    pre: len(pre) <= 2 and all(0 <= p <= 2 for p in pre) and len(set(pre)) == len(pre)
    pre: 1 <= n0 <= 2 and 1 <= n <= 2 and 0 <= k <= 2
    post: _
    """
    return _set_after_history(pre, n0, r0, r1, True, False, k, n)


def datagroup_set_after_del_history_shape(pre: List[int], n0: int, r0: bool, r1: bool, k: int, n: int) -> bool:
    """
    pre: len(pre) <= 2 and all(0 <= p <= 2 for p in pre) and len(set(pre)) == len(pre)
    pre: 1 <= n0 <= 2 and 1 <= n <= 2 and 0 <= k <= 2
    post: _
    """
    return _set_after_history(pre, n0, r0, r1, False, True, k, n)


def datagroup_set_after_del_history_noshape(pre: List[int], n0: int, r0: bool, r1: bool, k: int, n: int) -> bool:
    """
    pre: len(pre) <= 2 and all(0 <= p <= 2 for p in pre) and len(set(pre)) == len(pre)
    pre: 1 <= n0 <= 2 and 1 <= n <= 2 and 0 <= k <= 2
    post: _
    """
    return _set_after_history(pre, n0, r0, r1, False, False, k, n)


def datagroup_clear_then_set(pre: List[int], n0: int, how: int, k: int, n: int) -> bool:
    """
    pre: 1 <= len(pre) <= 3 and all(0 <= p <= 2 for p in pre) and len(set(pre)) == len(pre)
    pre: 1 <= n0 <= 2 and 1 <= n <= 2 and 0 <= how <= 2 and 0 <= k <= 2
    post: _
    """
    dg = Datagroup()
    for p in pre:
        dg[KEYS[p]] = Val(n0)
    if how == 0:
        dg.clear()
    elif how == 1:
        for p in pre:
            dg.pop(KEYS[p])
    else:
        c = dg.copy()
        for p in pre:
            del dg[KEYS[p]]
        if len(c) != len(pre):
            return False
    v = Val(n)
    dg[KEYS[k]] = v            # an emptied group accepts any shape
    return list(dg.keys()) == [KEYS[k]] and dg.shape == (n,) and dg[KEYS[k]] is v and v.name == KEYS[k]
