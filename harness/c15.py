"""C15 -- the outcome of load() does not depend on earlier loads on the same dataset.

Sequences of load() calls on ONE RamsesDataset (symbolic files as in C01) are compared, group
by group, with FRESH datasets executing only the relevant call; groups produced only by
earlier calls must be the same objects, unchanged; the metadata counts must match the
groups just loaded."""
import itertools
import os

import numpy as np

from harness import common as C
from harness import loader_common as LC
from harness import c01 as B
from harness import c14 as P
from oracles import units as U

PROP = "C15"
FILES = ["src/osyris/io/ramses.py", "src/osyris/io/loader.py", "src/osyris/io/amr.py", "src/osyris/io/reader.py"]
FUNCTIONS = B.FUNCTIONS + ["osyris.io.amr.AmrReader.initialize (persistent cpu_list)", "osyris.io.hilbert.hilbert_cpu_list/_get_cpu_list",
                           "osyris.io.part.PartReader"]
ASSUMPTIONS = B.ASSUMPTIONS + ["stored densities are assumed strictly increasing in file order and stored oct centres equal to the true centres, so that "
                               "value / position predicates and sortby do not multiply the paths (the predicates themselves are C04's subject)",
                               "'fresh dataset' = a new RamsesDataset on the same files executing only that call, in the same symbolic run"]
BOUNDS = {"quick": {"alphabet": "full, part-only, mesh variable subset, value predicate, position predicate (triggers the Hilbert CPU pre-selection), "
                                "level predicate, cpu_list=[1], sortby on the mesh, sortby on the sinks", "sequences": "all ordered pairs (81)",
                    "output": "2-D, 2 CPUs, refined tree, particles, 2 sinks"},
          "thorough": {"sequences": "all ordered triples (729)"}}
FLOOR = {"quick": 1500, "thorough": 10000}
SHADOW_EVERY = 4
LIMITS = {"quick": {"max_paths": 64, "budget_s": 300}, "thorough": {"max_paths": 64, "budget_s": 600}}

ALPHABET = ["full", "part", "vars", "value", "position", "level", "cpulist", "sortby", "sinksort"]


def configs(tier):
    n = 2 if tier == "quick" else 3
    out = []
    for seq in itertools.product(ALPHABET, repeat=n):
        out.append(dict(seq=list(seq)))
    for a in ALPHABET:
        out.append(dict(seq=[a]))
    return out


def call_kwargs(m, name, out, thr):
    import osyris
    if name == "full":
        return {}
    if name == "part":
        return dict(select=["part"])
    if name == "vars":
        return dict(select={"mesh": ["density", "dx", "level", "position_x", "position_y"]})
    if name == "value":
        return dict(select={"mesh": {"density": lambda d: d > osyris.Array(thr * out.cfg["unit_d"], unit="g/cm**3")}})
    if name == "position":
        x0 = 0.5 * out.cfg["boxlen"] * out.cfg["unit_l"]
        return dict(select={"mesh": {"position_x": lambda x: x > osyris.Array(x0, unit="cm")}})
    if name == "level":
        return dict(select={"mesh": {"level": lambda l: l <= 1}})
    if name == "cpulist":
        return dict(cpu_list=[1])
    if name == "sortby":
        return dict(sortby={"mesh": "density"})
    if name == "sinksort":
        return dict(sortby={"sink": "msink"})
    raise ValueError(name)


def produces(name):
    return {"part": ["part"]}.get(name, ["mesh", "part"])


def body(m, cfg):
    if m.symbolic:
        return _body(m, cfg)
    try:
        _body(m, cfg)
    except Exception as e:
        m.failed.append("*")
        m.notes = f"{type(e).__name__}: {e}"
        return
    if m.failed:
        m.notes = list(m.failed)
        m.failed.append("*")


def _body(m, cfg):
    import osyris
    base = dict(ndim=2, ncpu=2, shape="refined-other", nboundary=0, nxyz=[1, 1, 1], levelmax=2, hydro="two", grav=False, rt=False,
                units=list(B.UNITSETS[0]), nout=1)
    out = B.make_output(m, base)
    try:
        out.add_particles(P.part_columns("bytes-mid", 2), [1, 2])
        # ordering assumptions (see ASSUMPTIONS)
        dens = [m.t(x) for o in out.octs for x in o.vals["hydro"]["density"]]
        for a, b in zip(dens, dens[1:]):
            m.assume(m.lt(a, b))
        for o in out.octs:
            for k in range(2):
                m.assume(m.eq(m.t(o.xg[k]), o.centre_code[k]))
        thr = m.real("threshold")
        out.build(ghosts="zero")
        out.build_particles()
        # two sinks, stored in DEcreasing mass order (a sort on msink changes the row order; no fork)
        out.add_sinks(["id", "msink", "x", "y"], ["1", "m", "l", "l"], 2)
        m.assume(m.gt(m.t(out.sink_vals[0][1]), m.t(out.sink_vals[1][1])))
        saved = LC.install_shims(out) if m.symbolic else None
        from symx import install as _install
        S = _install.mod("osyris.io.sink")
        old_np = S.np
        if m.symbolic:
            class _NP:
                def __getattr__(self_, k):
                    return getattr(old_np, k)
            stub = _NP()
            stub.loadtxt = out.sink_loadtxt(np.loadtxt)
            S.np = stub
        try:
            with LC.quiet():
                ds = osyris.RamsesDataset(1, path=out.root)
                seq = cfg["seq"]
                tag = "->".join(seq)
                history = []
                for step, name in enumerate(seq):
                    before = {k: (id(ds[k]), _snap(m, ds[k])) for k in ds.keys()}
                    ds.load(**call_kwargs(m, name, out, thr))
                    fresh = osyris.RamsesDataset(1, path=out.root)
                    fresh.load(**call_kwargs(m, name, out, thr))
                    for gname in set(ds.keys()) | set(fresh.keys()):
                        if gname in fresh.keys():
                            ok = gname in ds.keys()
                            m.require(ok, f"group {gname} produced by call {step + 1} ({name}) is present", key=f"group-missing:{tag}")
                            if ok:
                                _same_group(m, ds[gname], fresh[gname], f"{tag}:{step + 1}:{gname}")
                        else:
                            # produced only by earlier calls: kept, same object, unchanged
                            ok = gname in before and id(ds[gname]) == before[gname][0] and _snap_equal(m, _snap(m, ds[gname]), before[gname][1])
                            m.require(ok, f"group {gname} from an earlier call is kept unchanged", key=f"earlier-group:{tag}")
                    for key in ("ncells", "nparticles", "lmax"):
                        ok = int(ds.meta[key]) == int(fresh.meta[key])
                        if key == "ncells" and "mesh" not in fresh.keys() and "mesh" in ds.keys():
                            # the call loaded no mesh: the count may keep describing the mesh group kept from an earlier call
                            ok = ok or int(ds.meta[key]) == len(ds["mesh"]["density"]) if "density" in ds["mesh"] else ok
                        m.require(ok, f"meta['{key}'] matches the groups just loaded", key=f"meta-{key}:{tag}",
                                  info={"got": int(ds.meta[key]), "fresh": int(fresh.meta[key])})
        finally:
            S.np = old_np
            if saved is not None:
                LC.remove_shims(saved)
    finally:
        out.cleanup()


def _cols(m, g):
    out = {}
    for k in g.keys():
        v = g[k]
        comps = list(C.vcomps(v).items()) if C.is_vec(v) else [("", v)]
        for c, a in comps:
            out[k + ("." + c if c else "")] = a
    return out


def _snap(m, g):
    return {k: (m.vals(a._array), str(a.unit), tuple(a.shape)) for k, a in _cols(m, g).items()}


def _snap_equal(m, s1, s2):
    return s1.keys() == s2.keys() and all(s1[k][1:] == s2[k][1:] and C.same_terms(m, s1[k][0], s2[k][0]) for k in s1)


def _same_group(m, g, f, tag):
    cg, cf = _cols(m, g), _cols(m, f)
    if not m.require(list(cg.keys()) == list(cf.keys()), "same variables as the fresh load", key=f"vars:{tag}",
                     info={"got": list(cg.keys()), "fresh": list(cf.keys())}):
        return
    fs = []
    for k in cg:
        a, b = cg[k], cf[k]
        if not m.require(tuple(a.shape) == tuple(b.shape) and str(a.unit) == str(b.unit), f"{k}: same shape and unit as the fresh load",
                         key=f"shape:{tag}", info={"var": k, "got": list(a.shape), "fresh": list(b.shape)}):
            return
        fs += [m.close(x, y, exact=True) for x, y in zip(m.vals(a._array), m.vals(b._array))]
    m.check("values equal those of the fresh load", m.And(fs), key=f"values:{tag}")
