"""Shared helpers for the Array/Vector algebra harnesses (C02, C07, C08, C09, C10, C17 ...)."""
import itertools

import numpy as np

from oracles import units as U

# unit families: first entries are used by the quick tier
FAMILIES = {
    "length": ["m", "cm", "au", "pc", "km"],
    "mass": ["g", "kg", "M_sun", "M_earth"],
    "time": ["s", "yr", "Myr"],
    "velocity": ["cm/s", "km/s", "m/s"],
    "density": ["g/cm**3", "kg/m**3", "M_sun/pc**3"],
    "energy": ["erg", "J"],
    "dimensionless": ["dimensionless", "km/m", "percent"],
    "astro": ["R_sun", "au", "R_earth", "R_jup"],
}


def unit_pairs(tier, with_incompatible=True):
    """Ordered (ua, ub) pairs: identical, compatible-different, incompatible."""
    n = 2 if tier == "quick" else 4
    pairs = []
    for fam, us in FAMILIES.items():
        us = us[:n]
        for a, b in itertools.product(us, us):
            pairs.append((a, b))
    if with_incompatible:
        pairs += [("m", "g"), ("g", "s"), ("cm/s", "cm"), ("dimensionless", "cm"), ("erg", "g")]
        if tier != "quick":
            pairs += [("s", "m"), ("g/cm**3", "g"), ("K", "erg"), ("cm", "dimensionless")]
    # dedupe, keep order
    seen, out = set(), []
    for p in pairs:
        if p not in seen:
            seen.add(p)
            out.append(p)
    return out


def ou(unit):
    """osyris unit object from a string."""
    import osyris
    return osyris.units(unit)


def fd(unit):
    """(factor, dim) from the independent table for a pint Unit or string."""
    if isinstance(unit, str):
        unit = ou(unit)
    return U.factor_dim(unit)


def bcast_index(shape_a, shape_b):
    """Flat index arrays (ia, ib) and the broadcast shape, numpy's own broadcasting."""
    na = int(np.prod(shape_a)) if shape_a else 1
    nb = int(np.prod(shape_b)) if shape_b else 1
    A = np.arange(na).reshape(shape_a)
    B = np.arange(nb).reshape(shape_b)
    bs = np.broadcast_shapes(tuple(shape_a), tuple(shape_b))
    return (np.broadcast_to(A, bs).ravel().tolist(), np.broadcast_to(B, bs).ravel().tolist(), tuple(bs))


def snapshot(m, arr):
    """(terms, unit string, buffer id) of an Array."""
    return (m.vals(arr._array), str(arr.unit), id(arr._array))


def same_terms(m, xs, ys):
    """Structural identity of two term lists (symbolic: z3 term equality; concrete: ==)."""
    if len(xs) != len(ys):
        return False
    for x, y in zip(xs, ys):
        if x is None or y is None:
            if (x is None) != (y is None):
                return False
            continue
        if m.symbolic:
            import z3
            if not z3.simplify(x == y).eq(z3.BoolVal(True)) and not x.eq(y):
                return False
        else:
            if x != y:
                return False
    return True


def unchanged(m, arr, snap):
    t, u, i = snap
    return same_terms(m, m.vals(arr._array), t) and str(arr.unit) == u


def unit_dim_ok(unit, dim):
    try:
        return U.factor_dim(unit)[1] == tuple(dim)
    except U.UnknownUnit:
        return False


def shape_str(s):
    return "x".join(str(i) for i in s) if s else "0d"


DT_SHORT = {"float64": "f64", "float32": "f32", "int64": "i64", "int32": "i32"}


def tol_for(*units):
    """Relative tolerance for quantities expressed in these units (None = the default 1e-9)."""
    return U.tol_for(*[ou(u) if isinstance(u, str) else u for u in units])


def is_vec(o):
    """An osyris Vector (by class, not by private attributes)."""
    import osyris
    return isinstance(o, osyris.Vector)


def vcomps(v):
    """The components of a Vector as an ordered dict name -> Array, read through the PUBLIC attributes x, y, z
    (the components the Vector has now)."""
    return {c: getattr(v, c) for c in "xyz" if getattr(v, c, None) is not None}


def njit_helpers_as_python(modname, skip=()):
    """Stub table entries replacing every numba-compiled function of a module by its Python source (py_func), so that
    helper kernels called from a kernel's Python source run on the symbolic values too."""
    from symx import install
    M = install.mod(modname)
    return {k: v.py_func for k, v in vars(M).items() if hasattr(v, "py_func") and k not in skip}
