"""C01 -- a full load returns every leaf cell exactly once with true geometry, values, units.

The real RamsesDataset(...).load() runs on *symbolic RAMSES files*: header sizes (noutput,
width of the bound_key record), the number of ghost/boundary grids in every (level,
domain) slot, every stored double, oct centre and son index are z3 symbols.  Every
struct.unpack is checked by the record-locator obligation (aligned, type-correct, in
bounds for ALL symbolic sizes) against a layout written from RAMSES' own output routines,
and the loaded mesh is compared row by row with the tree oracle."""
import itertools
import os

import numpy as np

from harness import common as C
from harness import loader_common as LC
from oracles import units as U

PROP = "C01"
FILES = ["src/osyris/io/loader.py", "src/osyris/io/reader.py", "src/osyris/io/amr.py", "src/osyris/io/hydro.py", "src/osyris/io/grav.py",
         "src/osyris/io/rt.py", "src/osyris/io/utils.py", "src/osyris/io/ramses.py", "src/osyris/config/defaults.py",
         "src/osyris/core/dataset.py", "src/osyris/units/library.py"]
FUNCTIONS = ["osyris.io.ramses.RamsesDataset.__init__/load", "osyris.io.loader.Loader.load_metadata/load",
             "osyris.io.amr.AmrReader (all methods)", "osyris.io.hydro.HydroReader / grav.GravReader / rt.RtReader (all methods)",
             "osyris.io.reader.Reader (all methods)", "osyris.io.utils.generate_fname/read_parameter_file/read_binary_data/make_vector_arrays",
             "osyris.config.defaults.configure_units/additional_variables", "osyris.units.library.UnitsLibrary.__getitem__"]
ASSUMPTIONS = ["well-formed outputs: record layout as written by RAMSES (ramses/layout.py), son index > 0 iff the cell is refined",
               "structure (ndim, ncpu, levels, boundary regions, tree shape, variable lists) is enumerated; sizes and payloads are symbolic",
               "text files (info, descriptors) are real files parsed by osyris' own eval / np.loadtxt on the enumerated texts",
               "byte order, int32 overflow of record markers (records >= 2 GiB), float32 files are outside the claim",
               "M_sun: osyris' value is compared with the IAU/CODATA value at 1e-3 (C08)"]
BOUNDS = {"quick": {"ndim": "1,2,3", "ncpu": "1,2", "levels": "<= 3", "nboundary": "0,1 (2 regions for two 1-CPU trees)", "nxyz": "(1,1,1),(3,1,1)",
                    "trees": "flat, refined (same owner), refined (other owner), deep (down to levelmax)",
                    "variables": "hydro {2 scalars, hd with velocity, MHD list}, grav on/off, rt on/off",
                    "symbolic": "noutput >= 1, bound_key width >= 0, ghost/boundary grid counts >= 0 per (file, level, domain), all doubles, son indices",
                    "loads": "per file with cpu_list=[k] (all ghost patterns as paths) and all files with ghost counts all-zero / all-positive"},
          "thorough": {"as": "quick with ncpu 3, nboundary 2, levelmax 4, all hydro sets in every dimension"}}
FLOOR = {"quick": 3000, "thorough": 10000}
SHADOW_EVERY = 4
LIMITS = {"quick": {"max_paths": 600, "budget_s": 400}, "thorough": {"max_paths": 6000, "budget_s": 2400}}

UNITSETS = [(5.0, 3.0, 7.0, 2.0), (2.3e-24, 3.0857e18, 3.1557e13, 1.0)]       # unit_d, unit_l, unit_t, boxlen
SHAPES = ["flat", "refined", "refined-other", "deep"]


def configs(tier):
    out = []
    big = tier != "quick"
    for ndim in (1, 2, 3):
        for ncpu in ((1, 2) if not big else (1, 2, 3)):
            for shape in SHAPES:
                if shape == "refined-other" and ncpu == 1:
                    continue
                for nb, nxyz in ([(0, (1, 1, 1)), (1, (3, 1, 1))] if not big else [(0, (1, 1, 1)), (1, (3, 1, 1)), (2, (3, 3, 1))]):
                    if nxyz == (3, 3, 1) and ndim < 2:
                        continue
                    L = 3 if shape == "deep" else 2
                    if big and shape == "deep":
                        L = 4
                    hset = {1: "two", 2: "hd", 3: "mhd"}[ndim] if not big else None
                    # thorough: the variable set rotates with (ndim, shape, boundaries) -- every set meets every ndim and shape
                    for hs in ([hset] if hset else [["two", "hd", "mhd"][(ndim + SHAPES.index(shape) + nb) % 3]]):
                        grav = (ndim == 2) or big
                        rt = (ndim == 3 and shape == "refined") or (big and shape == "flat")
                        us = UNITSETS[(ndim + ncpu) % 2]
                        base = dict(ndim=ndim, ncpu=ncpu, shape=shape, nboundary=nb, nxyz=list(nxyz), levelmax=L, hydro=hs, grav=grav, rt=rt,
                                    units=list(us), nout=1)
                        for k in range(ncpu):
                            c = dict(base, load=f"file:{k}")
                            nslots = (ncpu - 1 + nb) * L
                            # (a split multiplies the fixed cost of a task: only worth it from 2^5 patterns on)
                            c["_split"] = 4 if nslots >= 7 else (2 if nslots >= 5 else 0)
                            W = 8 if ndim < 3 else 5         # a 3-D path costs ~8 s
                            if nslots > W:
                                # 2^nslots empty/non-empty patterns: windows of W free slots, the others holding 0 / 1 foreign grids
                                wins = [(st, fl) for st in range(0, nslots, W) for fl in (0, 1)] if ndim < 3 else \
                                    [(0, 0), (0, 1), (nslots - W, 0)]
                                for start, fill in wins:
                                    out.append(dict(c, ghost_window=[start, W, fill], _split=(4 if W >= 7 else 2)))
                            else:
                                out.append(c)
                        if ncpu > 1 or nb > 0:
                            out.append(dict(base, load="all:zero"))
                            out.append(dict(base, load="all:positive"))
                        else:
                            out.append(dict(base, load="all:zero"))
    out.append(dict(ndim=3, ncpu=2, shape="refined-other", nboundary=0, nxyz=[1, 1, 1], levelmax=2, hydro="hd", grav=False, rt=False,
                    units=list(UNITSETS[0]), nout=-1, load="all:zero"))
    if not big:
        # two boundary regions (their per-level ghost-grid counts free and independent of each other), also in the quick tier
        for ndim, shape, L in ((2, "deep", 3), (3, "refined", 2)):
            base = dict(ndim=ndim, ncpu=1, shape=shape, nboundary=2, nxyz=[3, 3, 1], levelmax=L, hydro={2: "hd", 3: "two"}[ndim], grav=(ndim == 2),
                        rt=False, units=list(UNITSETS[ndim % 2]), nout=1)
            out.append(dict(base, load="file:0", _split=2))
            out.append(dict(base, load="all:positive"))
    # the remaining variable names of the unit library (momentum, internal_energy, temperature, energy, two-digit groups, unknown names)
    for ndim in (1, 2, 3):
        for us in UNITSETS:
            out.append(dict(ndim=ndim, ncpu=1, shape="refined", nboundary=0, nxyz=[1, 1, 1], levelmax=2, hydro="alt", grav=False, rt=False,
                            units=list(us), nout=1, load="all:zero"))
    return out


def build_tree(out, cfg):
    """Tree shapes.  Owners: root oct belongs to cpu 0; children as the shape says."""
    ndim, ncpu, shape = cfg["ndim"], cfg["ncpu"], cfg["shape"]
    nxyz = cfg["nxyz"]
    centre = [(nxyz[k] // 2) + 0.5 for k in range(ndim)]
    root = out.new_oct(1, centre, 0, "A")
    two = 2 ** ndim
    last = ncpu - 1
    if shape == "refined":
        out.refine(root, 0, 0, "B")
    elif shape == "refined-other":
        out.refine(root, two - 1, last, "B")
        if ndim >= 2:
            out.refine(root, 1, 0, "C")
    elif shape == "deep":
        b = out.refine(root, 1 % two, last, "B")
        c = out.refine(b, two - 1, 0, "C")
        if cfg["levelmax"] >= 4:
            out.refine(c, 0, last, "D")
    return root


def make_output(m, cfg):
    us = cfg["units"]
    fcfg = dict(ncpu=cfg["ncpu"], ndim=cfg["ndim"], levelmin=1, levelmax=cfg["levelmax"], nboundary=cfg["nboundary"],
                nxyz=tuple(cfg["nxyz"]), unit_d=us[0], unit_l=us[1], unit_t=us[2], boxlen=us[3], nout=(cfg["nout"] if cfg["nout"] != -1 else 7),
                bound_keys=[0] + [8 ** (cfg["levelmax"] + 1) * (i + 1) // cfg["ncpu"] for i in range(cfg["ncpu"])])
    if cfg.get("ghost_window"):
        fcfg["ghost_window"] = list(cfg["ghost_window"])
    out = LC.Output(m, fcfg)
    build_tree(out, cfg)
    ndim = cfg["ndim"]
    out.fill_values("hydro", LC.hydro_vars(cfg["hydro"], ndim))
    if cfg.get("grav"):
        out.fill_values("grav", LC.grav_vars(ndim))
    if cfg.get("rt"):
        out.fill_values("rt", ["photon_density_1", "photon_flux_1_x"][: 2])
    return out


def body(m, cfg):
    if m.symbolic:
        return _body(m, cfg)
    # concrete replay: real files through the un-instrumented loader; ANY failure (wrong rows or values, or
    # an exception from reading misplaced bytes) reproduces a locator / value counterexample
    try:
        _body(m, cfg)
    except Exception as e:
        m.failed.append("*")
        m.notes = f"{type(e).__name__}: {e}"
        return
    if m.failed:
        m.notes = list(m.failed)
        m.failed.append("*")


def _body(m, cfg):
    import osyris
    out = make_output(m, cfg)
    try:
        mode, arg = cfg["load"].split(":")
        out.build(ghosts=("symbolic" if mode == "file" else arg))
        if cfg["nout"] == -1:
            # an older output next to it: -1 must pick the last one
            os.makedirs(os.path.join(out.root, "output_00003"))
        saved = LC.install_shims(out) if m.symbolic else None
        try:
            with LC.quiet():
                ds = osyris.RamsesDataset(cfg["nout"], path=out.root)
                kw = {}
                if mode == "file":
                    kw["cpu_list"] = [int(arg) + 1]
                ds.load(**kw)
        finally:
            if saved is not None:
                LC.remove_shims(saved)
        owners = None if mode == "all" else {int(arg)}
        check_mesh(m, cfg, out, ds, owners=owners, tag=f"{cfg['ndim']}d:{cfg['shape']}:{cfg['hydro']}")
    finally:
        out.cleanup()


def vec_or_scalar(group, name, comp):
    """Array of component `comp` ('x','y','z') of variable family `name` or None."""
    if name in group and C.is_vec(group[name]):
        return getattr(group[name], comp)
    return None


def loaded_column(group, stored_name, ndim):
    """(Array holding the stored variable, how it was found) -- merged vectors are looked up by component."""
    if stored_name in group:
        return group[stored_name], "scalar"
    comps = "xyz"[:ndim]
    for ind, ch in enumerate(stored_name):
        if ch in comps and (ind == len(stored_name) - 1 or stored_name[ind + 1] == "_") and ind > 0 and stored_name[ind - 1] == "_":
            raw = stored_name[:ind - 1] + stored_name[ind + 1:]
            if raw in group and C.is_vec(group[raw]) and getattr(group[raw], ch, None) is not None:
                return getattr(group[raw], ch), "vector:" + raw
    return None, None


def check_mesh(m, cfg, out, ds, owners=None, lmax=None, tag="", level_ok=None, variables=None, row_filter=None, prov=("hydro", "density"), geometry=None):
    """Compare ds['mesh'] with the tree oracle.  owners: set of 0-based cpus whose cells are expected."""
    ndim = cfg["ndim"]
    two = 2 ** ndim
    uf = LC.unit_factors(out.cfg)
    leaves = [(o, ind) for (o, ind) in out.leaves(lmax) if owners is None or o.owner in owners]
    if level_ok is not None:
        leaves = [(o, ind) for (o, ind) in leaves if level_ok(o.level)]
    if row_filter is not None:
        leaves = [x for x in leaves if row_filter(*x)]
    if not leaves:
        m.require("mesh" not in ds or len(ds["mesh"]) == 0 or ds["mesh"].shape in ((), (0,)), "no leaf expected: mesh group empty",
                  key=f"rows:{tag}")
        return
    pk, pv = prov
    parr = loaded_column(ds["mesh"], pv, ndim)[0] if "mesh" in ds else None
    if not m.require(parr is not None, "mesh group with the requested variables is present", key=f"rows:{tag}"):
        return
    g = ds["mesh"]
    dens = m.vals(parr._array)
    pfac = uf[LC.var_class(pv)][0]
    # row matching by provenance: the density symbol of (oct, ind)
    rowof = {}
    used = set()
    for (o, ind) in leaves:
        sym = m.t(o.vals[pk][pv][ind])
        hits = [r for r, t in enumerate(dens) if _mentions(m, t, sym, pfac)]
        if not m.require(len(hits) == 1, f"leaf cell {o.tag}[{ind}] appears exactly once", key=f"rows:{tag}",
                         info={"cell": f"{o.tag}[{ind}]", "hits": len(hits)}):
            return
        rowof[(o.tag, ind)] = hits[0]
        used.add(hits[0])
    m.require(len(dens) == len(leaves) and len(used) == len(leaves), "no extra row (ghost copies, refined cells)", key=f"rows:{tag}",
              info={"rows": len(dens), "leaves": len(leaves)})
    m.require(int(ds.meta["ncells"]) == len(dens), "meta['ncells'] equals the number of rows", key=f"ncells:{tag}")
    xb = out.xbound()
    boxlen, unit_l = out.cfg["boxlen"], out.cfg["unit_l"]
    fs = []
    keys_expected = set()
    for kind, names in out.kinds.items():
        for v in names:
            if variables is not None and v not in variables:
                continue
            arr, how = loaded_column(g, v, ndim)
            if not m.require(arr is not None, f"stored variable {v} is present in the mesh group", key=f"variable-missing:{tag}", info=v):
                continue
            cls = LC.var_class(v)
            f_or, d_or = uf[cls]
            try:
                f_l, d_l = U.factor_dim(arr.unit)
            except U.UnknownUnit as e:
                m.fail(f"unit {arr.unit} of {v} unknown", key=f"unit:{tag}:{cls}")
                continue
            m.require(tuple(d_l) == tuple(d_or), f"{v} is labelled with the unit of its physical class ({cls})", key=f"unit:{tag}:{cls}",
                      info=str(arr.unit))
            col = m.vals(arr._array)
            for (o, ind) in leaves:
                r = rowof[(o.tag, ind)]
                disk = m.t(o.vals[kind][v][ind])
                fs.append(m.close(m.t(col[r]) * f_l, disk * f_or))
    m.check("every stored variable equals the number on disk times the unit factor implied by unit_d/unit_l/unit_t", m.And(fs),
            key=f"values:{tag}")
    # geometry (geometry: set of requested amr variable names, None = all)
    fs = []
    want_pos = geometry is None or all(f"position_{c}" in geometry for c in "xyz"[:ndim])
    want = lambda nme: geometry is None or nme in geometry
    sc = boxlen * unit_l
    if want_pos:
        pos = g["position"] if "position" in g else None
        if ndim == 1:
            posc = [g["position_x"]] if "position_x" in g else ([pos.x] if pos is not None and C.is_vec(pos) else [None])
        else:
            posc = [getattr(pos, c) for c in "xyz"[:ndim]] if (pos is not None and C.is_vec(pos) and pos.nvec == ndim) else [None] * ndim
        if m.require(all(p is not None for p in posc), "cell positions are present (a Vector when ndim > 1)", key=f"geometry-missing:{tag}"):
            f_p = [U.factor_dim(p.unit) for p in posc]
            m.require(all(tuple(d) == (1, 0, 0, 0, 0) for _, d in f_p), "positions are lengths", key=f"unit:{tag}:length")
            cols = [m.vals(p._array) for p in posc]
            for (o, ind) in leaves:
                r = rowof[(o.tag, ind)]
                h = 0.5 ** o.level
                for k in range(ndim):
                    wantv = (m.t(o.xg[k]) + (((ind >> k) & 1) - 0.5) * h - xb[k]) * boxlen * unit_l
                    fs.append(m.close(m.t(cols[k][r]) * f_p[k][0], wantv, scale=m.abs(m.t(o.xg[k])) * sc + sc))
    elif geometry is not None:
        # partial position components stay scalars under their own names
        for k, c in enumerate("xyz"[:ndim]):
            nme = f"position_{c}"
            if nme in geometry and m.require(nme in g and not C.is_vec(g[nme]), f"{nme} stays a scalar when a component is missing",
                                             key=f"geometry-missing:{tag}"):
                fp = U.factor_dim(g[nme].unit)[0]
                col = m.vals(g[nme]._array)
                for (o, ind) in leaves:
                    r = rowof[(o.tag, ind)]
                    h = 0.5 ** o.level
                    wantv = (m.t(o.xg[k]) + (((ind >> k) & 1) - 0.5) * h - xb[k]) * boxlen * unit_l
                    fs.append(m.close(m.t(col[r]) * fp, wantv, scale=m.abs(m.t(o.xg[k])) * sc + sc))
    if want("dx") and m.require("dx" in g, "dx present", key=f"geometry-missing:{tag}"):
        f_dx = U.factor_dim(g["dx"].unit)[0]
        dxs = m.vals(g["dx"]._array)
        for (o, ind) in leaves:
            fs.append(m.close(m.t(dxs[rowof[(o.tag, ind)]]) * f_dx, (0.5 ** o.level) * boxlen * unit_l))
    if want("level") and m.require("level" in g, "level present", key=f"geometry-missing:{tag}"):
        lev = np.asarray(g["level"]._array).astype(object).ravel().tolist()
        for (o, ind) in leaves:
            fs.append(m.eq(m.t(lev[rowof[(o.tag, ind)]]), o.level))
    if want("cpu") and m.require("cpu" in g, "cpu present", key=f"geometry-missing:{tag}"):
        cpu = np.asarray(g["cpu"]._array).astype(object).ravel().tolist()
        for (o, ind) in leaves:
            fs.append(m.eq(m.t(cpu[rowof[(o.tag, ind)]]), o.owner + 1))
    m.check("cell centre, size, level and owning CPU are those of the tree", m.And(fs), key=f"geometry:{tag}")
    # vectors and derived variables
    if ndim > 1 and variables is None:
        for fam, names in (("velocity", [f"velocity_{c}" for c in "xyz"[:ndim]]), ("B_left", [f"B_{c}_left" for c in "xyz"[:ndim]]),
                           ("B_right", [f"B_{c}_right" for c in "xyz"[:ndim]]),
                           ("grav_acceleration", [f"grav_acceleration_{c}" for c in "xyz"[:ndim]])):
            stored = [v for names_ in out.kinds.values() for v in names_]
            if all(nm in stored for nm in names):
                m.require(fam in g and C.is_vec(g[fam]) and g[fam].nvec == ndim and not any(nm in g for nm in names),
                          f"components of {fam} are assembled into one Vector", key=f"vector:{tag}:{fam}")
    if variables is None:
        fs = []
        if True:
            if m.require("mass" in g, "derived variable mass is present", key=f"derived:{tag}:mass"):
                fm, dm = U.factor_dim(g["mass"].unit)
                m.require(tuple(dm) == (0, 1, 0, 0, 0), "mass is a mass", key=f"derived:{tag}:mass")
                ms = m.vals(g["mass"]._array)
                for (o, ind) in leaves:
                    r = rowof[(o.tag, ind)]
                    want = m.t(o.vals["hydro"]["density"][ind]) * uf["density"][0] * ((0.5 ** o.level) * boxlen * unit_l) ** 3
                    fs.append(m.close(m.t(ms[r]) * fm, want, tol=1e-3))
        if "B_x_left" in out.kinds.get("hydro", []) and ndim > 1:
            if m.require("B_field" in g and C.is_vec(g["B_field"]), "derived variable B_field is present", key=f"derived:{tag}:B_field"):
                for c in "xyz"[:ndim]:
                    bf = getattr(g["B_field"], c)
                    fb = U.factor_dim(bf.unit)[0]
                    bs = m.vals(bf._array)
                    for (o, ind) in leaves:
                        r = rowof[(o.tag, ind)]
                        want = 0.5 * (m.t(o.vals["hydro"][f"B_{c}_left"][ind]) + m.t(o.vals["hydro"][f"B_{c}_right"][ind])) * uf["B"][0]
                        fs.append(m.close(m.t(bs[r]) * fb, want, scale=m.abs(m.t(o.vals["hydro"][f"B_{c}_left"][ind])) * uf["B"][0]))
        m.check("derived variables (cell mass, centred B field) follow their defining formulas", m.And(fs), key=f"derived:{tag}")
    # time
    t = ds.meta["time"]
    try:
        ft, dt_ = U.factor_dim(t.units)
        m.require(tuple(dt_) == (0, 0, 1, 0, 0) and abs(float(t.magnitude) * ft / (0.5 * out.cfg["unit_t"]) - 1) < 1e-9,
                  "meta['time'] is the output time in physical units", key=f"time:{tag}")
    except Exception as e:
        m.fail(f"meta['time'] unusable: {e}", key=f"time:{tag}")


def _mentions(m, term, sym, pfac):
    """Does the loaded density term carry the disk symbol of (o, ind)?  Symbolic: the term is
    sym * factor (structural: sym occurs in it); concrete: value equality up to the factor."""
    if term is None:
        return False
    if m.symbolic:
        import z3
        return _occurs(term, sym)
    return abs(term - sym * pfac) <= 1e-9 * abs(sym * pfac) + 1e-300


def _occurs(term, sym):
    import z3
    stack = [term]
    seen = set()
    while stack:
        t = stack.pop()
        if t.get_id() in seen:
            continue
        seen.add(t.get_id())
        if t.eq(sym):
            return True
        stack.extend(t.children())
    return False
