"""C02 -- Array arithmetic equals arithmetic on the physical quantities it represents.

The real Array dunders run on SymArrays whose elements are z3 reals/ints; the obligation
is physical equality (independent unit table) with the same operation on the quantities
the operands represent, for ALL element values."""
import itertools

import numpy as np

from harness import common as C
from oracles import units as U

PROP = "C02"
FILES = ["src/osyris/core/array.py", "src/osyris/core/base.py", "src/osyris/units/units.py"]
FUNCTIONS = ["osyris.core.array.Array.__add__/__sub__/__mul__/__truediv__/__rmul__/__rtruediv__/__pow__/__neg__",
             "osyris.core.array._binary_op", "osyris.core.array.Array.to", "osyris.core.array.Array._wrap_numpy",
             "osyris.core.base.Base.__array_ufunc__", "osyris.core.array.Array.__init__"]
ASSUMPTIONS = ["paths dividing by zero are cut", "sqrt of negative values (NaN) is cut",
               "unit factors are compared with relative tolerance 1e-9 against an independent table"]
BOUNDS = {
    "quick": {"elements": "all symbolic (z3 Real / Int)", "shapes": "0-d, (2,), (2,2), (2,)+(), (2,1)+(1,2)",
              "dtype_pairs": "diagonal of {f64,f32,i64,i32} + (f32,f64) + (i64,f64)",
              "unit_pairs": "2 units per family, all ordered pairs + 5 incompatible pairs",
              "operators": "+ - * / neg ** rmul rtruediv", "rhs kinds": "Array, int, float, ndarray, Quantity"},
    "thorough": {"elements": "all symbolic", "shapes": "as quick + (3,), (1,)+(3,)", "dtype_pairs": "all 16",
                 "unit_pairs": "4 units per family + 9 incompatible pairs", "operators": "as quick",
                 "rhs kinds": "as quick"},
}
FLOOR = {"quick": 1500, "thorough": 10000}
SHADOW_EVERY = 1
LIMITS = {"quick": {"max_paths": 64, "budget_s": 120}, "thorough": {"max_paths": 256, "budget_s": 300}}

BIN = {"add": lambda a, b: a + b, "sub": lambda a, b: a - b, "mul": lambda a, b: a * b, "div": lambda a, b: a / b}
SHAPES_Q = [((), ()), ((2,), (2,)), ((2, 2), (2, 2)), ((2,), ()), ((2, 1), (1, 2))]
SHAPES_T = SHAPES_Q + [((3,), (3,)), ((1,), (3,)), ((), (2,))]
DT = ["float64", "float32", "int64", "int32"]
DTP_Q = [("float64", "float64"), ("float32", "float32"), ("int64", "int64"), ("int32", "int32"),
         ("float32", "float64"), ("int64", "float64")]


def configs(tier):
    out = []
    ups = C.unit_pairs(tier)
    shapes = SHAPES_Q if tier == "quick" else SHAPES_T
    dtp = DTP_Q if tier == "quick" else list(itertools.product(DT, DT))

    def add(**k):
        out.append(k)
    # 1. Array (op) Array : units x ops at base dtype/shape ; dtypes x shapes x ops at 3 unit pairs
    for op in BIN:
        for ua, ub in ups:
            add(op=op, rhs="Array", dta="float64", dtb="float64", sa=(2,), sb=(2,), ua=ua, ub=ub)
        sel = [("m", "cm"), ("g", "g"), ("m", "s")] if tier == "quick" else ups[::3]
        for (dta, dtb), (sa, sb), (ua, ub) in itertools.product(dtp, shapes, sel):
            add(op=op, rhs="Array", dta=dta, dtb=dtb, sa=sa, sb=sb, ua=ua, ub=ub)
    # 2. other right operand kinds
    for op in BIN:
        for rhs in ("int", "float", "ndarray", "Quantity"):
            for dta in (DT if tier != "quick" else ["float64", "float32", "int64"]):
                for ua, ub in [("m", "cm"), ("dimensionless", "dimensionless"), ("g", "s"), ("km/m", "dimensionless"),
                               ("percent", "dimensionless")]:
                    sb = () if rhs in ("int", "float") else (2,)
                    dtb = "int64" if rhs == "int" else "float64"
                    if rhs != "Quantity" and ub != "dimensionless" and (ua, ub) != ("m", "cm"):
                        continue
                    add(op=op, rhs=rhs, dta=dta, dtb=dtb, sa=(2,), sb=sb, ua=ua,
                        ub=(ub if rhs == "Quantity" else "dimensionless"))
    # 3. unary, power, reflected
    allu = sorted({u for p in ups for u in p})
    for ua in allu:
        for dta in DT:
            for sa in [(), (2,)]:
                add(op="neg", dta=dta, sa=sa, ua=ua)
                for k in (2, 3, -1, 0.5, 0):
                    if np.dtype(dta).kind == "i" and k in (-1,):
                        continue        # numpy refuses integer ** negative integer
                    add(op="pow", k=k, dta=dta, sa=sa, ua=ua)
                for lk in ("int", "float", "ndarray"):
                    add(op="rmul", lhs=lk, dta=dta, sa=sa, ua=ua)
                    add(op="rdiv", lhs=lk, dta=dta, sa=sa, ua=ua)
    # 4. histories: the result of an operation must not depend on operations performed before it on OTHER
    #    Arrays (hidden state such as caches keyed too coarsely): every ordered pair from a small alphabet
    alphabet = [dict(op="pow", k=2), dict(op="pow", k=3), dict(op="pow", k=-1), dict(op="pow", k=0.5), dict(op="neg"),
                dict(op="mul", rhs="Array", ub="cm", dtb="float64", sb=(2,)), dict(op="div", rhs="Array", ub="s", dtb="float64", sb=(2,)),
                dict(op="add", rhs="Array", ub="m", dtb="float64", sb=(2,)), dict(op="mul", rhs="float", ub="dimensionless", dtb="float64", sb=()),
                dict(op="rdiv", lhs="float"), dict(op="rmul", lhs="int")]
    for first in alphabet:
        for second in alphabet:
            for ua in (("cm",) if tier == "quick" else ("cm", "g")):
                if (second.get("op") == "add" or first.get("op") == "add") and ua != "cm":
                    continue
                add(pre=[dict(first, dta="float64", sa=(2,), ua=ua)], dta="float64", sa=(2,), ua=ua, **second)
    # 5. histories on the SAME operands: an earlier operation / conversion / comparison, then an in-place change of one operand,
    #    then the operation (a conversion remembered inside an operand must not be observable)
    for op in ("add", "sub", "mul", "div"):
        for warm in ("same-op", "to", "cmp"):
            for mut in ("b_iadd", "b_imul", "b_set", "b_view_set", "a_iadd"):
                for ua, ub in [("m", "cm"), ("cm", "cm")]:
                    add(op=op, rhs="Array", dta="float64", dtb="float64", sa=(2,), sb=(2,), ua=ua, ub=ub, warm=warm, mut=mut)
    for c in out:
        for k in ("sa", "sb"):
            if k in c:
                c[k] = list(c[k])
        for q in c.get("pre", []):
            for k in ("sa", "sb"):
                if k in q:
                    q[k] = list(q[k])
    return out


def _expect_binary(m, op, av, bv, fa, fb, ia, ib):
    """Expected values in CGS, and for + and - the magnitude |x|+|y| the tolerance is
    relative to (a conversion factor rounded in the last place must not count as a
    violation when the two terms nearly cancel)."""
    ex, sc = [], []
    for i, j in zip(ia, ib):
        x, y = m.t(av[i]) * fa, m.t(bv[j]) * fb
        ex.append({"add": lambda: x + y, "sub": lambda: x - y, "mul": lambda: x * y,
                   "div": lambda: x / y}[op]())
        sc.append(m.abs(x) + m.abs(y) if op in ("add", "sub") else None)
    return ex, sc


def body(m, cfg):
    import osyris
    from osyris import Array
    from pint.errors import DimensionalityError
    for i, q in enumerate(cfg.get("pre", [])):
        _history_op(m, q, i)
    op = cfg["op"]
    dta = cfg["dta"]
    m.dtype_tol(dta, cfg.get("dtb"))
    sa = tuple(cfg["sa"])
    tag = f"{op}:{C.DT_SHORT[dta]}" + (":after-" + "-".join(str(q["op"]) + str(q.get("k", "")) for q in cfg["pre"]) if cfg.get("pre") else "")
    a = Array(m.array("a", sa, dta), unit=cfg["ua"])
    fa, da = C.fd(cfg["ua"])
    av = m.vals(a._array)
    snap_a = C.snapshot(m, a)

    if op in BIN:
        rhs = cfg["rhs"]
        sb = tuple(cfg["sb"])
        dtb = cfg["dtb"]
        tag += f":{rhs}:{C.DT_SHORT[dtb]}"
        fb, db = C.fd(cfg["ub"])
        if rhs == "Array":
            b = Array(m.array("b", sb, dtb), unit=cfg["ub"])
            bv = m.vals(b._array)
        elif rhs in ("int", "float"):
            b = m.number("b_0", dtb)
            bv = [m.t(b)]
        elif rhs == "ndarray":
            b = m.array("b", sb, dtb)
            bv = m.vals(b)
        else:
            mag = m.array("b", sb, dtb)
            b = osyris.units._ureg.Quantity(mag, cfg["ub"])
            bv = m.vals(mag)
        if cfg.get("warm"):
            warm, mut = cfg["warm"], cfg["mut"]
            tag += f":after:{warm}:{mut}"
            try:
                {"same-op": lambda: BIN["add" if op == "div" else op](a, b), "to": lambda: b.to(a.unit), "cmp": lambda: a < b}[warm]()
            except DimensionalityError:
                pass
            if mut == "b_iadd":
                b += Array(m.array("d", sb, dtb), unit=cfg["ub"])
            elif mut == "b_imul":
                b *= 2.0
            elif mut == "b_set":
                b.values[0] = m.real("v")
            elif mut == "b_view_set":
                b[1:].values[0] = m.real("v")
            elif mut == "a_iadd":
                a += Array(m.array("d", sa, dta), unit=cfg["ua"])
            av, bv = m.vals(a._array), m.vals(b._array)
            snap_a = C.snapshot(m, a)
        if op == "div":
            for t in bv:
                m.assume(m.Not(m.eq(t, 0)))      # cut: division by zero
        snap_b = C.snapshot(m, b) if rhs == "Array" else None
        ia, ib, bs = C.bcast_index(sa, sb)
        compatible = (da == db)
        try:
            r = BIN[op](a, b)
        except DimensionalityError:
            if op in ("add", "sub") and not compatible:
                ok = C.unchanged(m, a, snap_a) and (snap_b is None or C.unchanged(m, b, snap_b))
                m.require(ok, "incompatible operands raise and stay unchanged", key=f"raise-unchanged:{tag}")
                return
            m.fail("unexpected DimensionalityError", key=f"unexpected-raise:{tag}")
            return
        if op in ("add", "sub") and not compatible:
            m.fail("adding incompatible dimensions did not raise", key=f"no-raise:{tag}")
            return
        m.require(isinstance(r, Array), "result is an Array", key=f"type:{tag}")
        m.require(tuple(r.shape) == bs, "result has the broadcast shape", key=f"shape:{tag}")
        ex, sc = _expect_binary(m, op, av, bv, fa, fb, ia, ib)
        dim = {"add": da, "sub": da, "mul": U.dim_mul(da, db), "div": U.dim_mul(da, U.dim_inv(db))}[op]
        _check_result(m, r, ex, dim, tag, sc, tol=C.tol_for(cfg["ua"], cfg["ub"]))
        m.require(C.unchanged(m, a, snap_a) and (snap_b is None or C.unchanged(m, b, snap_b)),
                  "operands unchanged", key=f"operands-changed:{tag}")
        return

    if op == "neg":
        r = -a
        _check_result(m, r, [-(m.t(x) * fa) for x in av], da, tag, tol=C.tol_for(cfg["ua"]))
    elif op == "pow":
        k = cfg["k"]
        tag += f":k={k}"
        if k < 0:
            for t in av:
                m.assume(m.Not(m.eq(t, 0)))
        if k == 0.5:
            for t in av:
                m.assume(m.ge(t, 0))
        r = a ** k
        dim = U.dim_pow(da, k)
        if k == 0.5:
            fr, dr = _fd_result(m, r, dim, tag)
            if fr is None:
                return
            rv = m.vals(r._array)
            m.check("sqrt: result squared equals operand", m.And(
                [m.close(m.t(y) * fr * m.t(y) * fr, m.t(x) * fa) for x, y in zip(av, rv)]
                + [m.ge(y, 0) for y in rv]), key=f"value:{tag}")
        else:
            kk = int(k)

            def p(x):
                x = m.t(x) * fa
                if kk == 0:
                    return m.t(1.0)
                y = x
                for _ in range(abs(kk) - 1):
                    y = y * x
                return y if kk > 0 else 1 / y
            _check_result(m, r, [p(x) for x in av], dim, tag, tol=C.tol_for(cfg["ua"]))
    elif op in ("rmul", "rdiv"):
        lk = cfg["lhs"]
        tag += f":{lk}"
        if lk == "ndarray":
            k = m.array("k", sa, "float64")
            kv = m.vals(k)
        else:
            k = m.number("k_0", "int64" if lk == "int" else "float64")
            kv = [m.t(k)] * len(av)
        if op == "rdiv":
            for t in av:
                m.assume(m.Not(m.eq(t, 0)))
            r = k / a
            ex = [m.t(kk) / (m.t(x) * fa) for kk, x in zip(kv, av)]
            dim = U.dim_inv(da)
        else:
            r = k * a
            ex = [m.t(kk) * (m.t(x) * fa) for kk, x in zip(kv, av)]
            dim = da
        m.require(isinstance(r, Array), "result is an Array", key=f"type:{tag}")
        if isinstance(r, Array):
            _check_result(m, r, ex, dim, tag, tol=C.tol_for(cfg["ua"]))
    m.require(C.unchanged(m, a, snap_a), "operand unchanged", key=f"operands-changed:{tag}")


def _history_op(m, q, i):
    """An earlier operation on other Arrays (inputs named h<i>...); its result is not examined."""
    from osyris import Array
    x = Array(m.array(f"h{i}a", tuple(q["sa"]), q["dta"]), unit=q["ua"])
    for t in m.vals(x._array):
        m.assume(m.gt(t, 0))
    op = q["op"]
    if op == "pow":
        x ** q["k"]
    elif op == "neg":
        -x
    elif op in BIN:
        if q["rhs"] == "Array":
            y = Array(m.array(f"h{i}b", tuple(q["sb"]), q["dtb"]), unit=q["ub"])
            for t in m.vals(y._array):
                m.assume(m.gt(t, 0))
        else:
            y = m.real(f"h{i}b_0", lo=1, hi=2)
        BIN[op](x, y)
    elif op == "rdiv":
        2.5 / x
    elif op == "rmul":
        3 * x


def _fd_result(m, r, dim, tag):
    try:
        fr, dr = U.factor_dim(r.unit)
    except U.UnknownUnit as e:
        m.fail(f"result unit {r.unit} unknown to the oracle table ({e})", key=f"unit:{tag}")
        return None, None
    if not m.require(dr == tuple(dim), "result unit has the derived dimension", key=f"unit:{tag}",
                     info={"unit": str(r.unit)}):
        return None, None
    return fr, dr


def _check_result(m, r, ex, dim, tag, scales=None, tol=None):
    fr, dr = _fd_result(m, r, dim, tag)
    if fr is None:
        return
    rv = m.vals(r._array)
    m.observe("result", r._array)
    if len(rv) != len(ex):
        m.fail("result size", key=f"shape:{tag}")
        return
    m.check("result equals the operation on the physical quantities",
            m.And([m.close(m.t(y) * fr, e, tol=tol, scale=(scales[i] if scales else None))
                   for i, (y, e) in enumerate(zip(rv, ex))]), key=f"value:{tag}")
