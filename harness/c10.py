"""C10 -- numpy functions on Arrays return dimensionally correct units or refuse.

For every function of the fixed catalogue below the real numpy protocol path
(Base.__array_ufunc__/__array_function__ -> Array._wrap_numpy) runs on symbolic arrays;
the oracle applies the same function to the operands expressed in CGS (independent unit
table) and the obligation is physical equality plus the dimensional-analysis rule of the
function's class."""
import itertools

import numpy as np

from harness import common as C
from oracles import units as U

PROP = "C10"
FILES = ["src/osyris/core/array.py", "src/osyris/core/base.py"]
FUNCTIONS = ["osyris.core.base.Base.__array_ufunc__", "osyris.core.base.Base.__array_function__",
             "osyris.core.array.Array._wrap_numpy", "osyris.core.array.Array._extract_arrays_from_args/_kwargs",
             "osyris.core.array.Array._extract_units", "osyris.core.base.Base.min/max"]
ASSUMPTIONS = ["the catalogue is fixed (see CATALOGUE); functions outside it are not claimed",
               "division-by-zero / sqrt-of-negative paths are cut",
               "argsort/argmax/argmin: only the returned indices are checked, not a unit"]
FLOOR = {"quick": 1200, "thorough": 4000}
SHADOW_EVERY = 2
LIMITS = {"quick": {"max_paths": 800, "budget_s": 200}, "thorough": {"max_paths": 4000, "budget_s": 900}}

# name -> (class, arity)
#  same      : result unit = argument unit (selection, ordering, linear statistics)
#  samebin   : like same, several unit-carrying arguments that must agree / be converted
#  mul, div, sqrt, square, cbrt, recip, pow : transformed
#  pred      : dimensionless boolean
#  index     : integer indices
CATALOGUE = {
    "negative": ("same", 1), "absolute": ("same", 1), "abs": ("same", 1), "positive": ("same", 1),
    "sum": ("same", 1), "mean": ("same", 1), "min": ("same", 1), "amin": ("same", 1), "max": ("same", 1),
    "amax": ("same", 1), "median": ("same", 1), "std": ("same", 1), "cumsum": ("same", 1), "sort": ("same", 1),
    "diff": ("same", 1), "nansum": ("same", 1), "nanmax": ("same", 1), "nanmin": ("same", 1), "nanmean": ("same", 1),
    "add": ("samebin", 2), "subtract": ("samebin", 2), "minimum": ("samebin", 2), "maximum": ("samebin", 2),
    "concatenate": ("samebin", 2), "where": ("samebin", 2), "clip": ("samebin", 3),
    "multiply": ("mul", 2), "divide": ("div", 2), "true_divide": ("div", 2), "power": ("pow", 1),
    "sqrt": ("sqrt", 1), "square": ("square", 1), "cbrt": ("cbrt", 1), "reciprocal": ("recip", 1),
    "less": ("pred", 2), "less_equal": ("pred", 2), "greater": ("pred", 2), "greater_equal": ("pred", 2),
    "equal": ("pred", 2), "not_equal": ("pred", 2), "isnan": ("pred", 1), "isfinite": ("pred", 1),
    "logical_and": ("pred", 2), "logical_or": ("pred", 2), "logical_not": ("pred", 1),
    "argsort": ("index", 1), "argmax": ("index", 1), "argmin": ("index", 1),
    # "... and the like": more members of the unit-preserving classes
    "nanstd": ("same", 1), "nanmedian": ("same", 1), "ptp": ("same", 1), "average": ("same", 1), "flip": ("same", 1),
    "ravel": ("same", 1), "transpose": ("same", 1),
    "fmax": ("samebin", 2), "fmin": ("samebin", 2), "hstack": ("samebin", 2), "vstack": ("samebin", 2), "stack": ("samebin", 2),
    "append": ("samebin", 2),
}
LIST_ARG = ("concatenate", "hstack", "vstack", "stack")
BOUNDS = {"quick": {"catalogue": sorted(CATALOGUE), "elements": "all symbolic; (2,) and (2,2) arrays",
                    "unit assignments": "same / compatible-different (m,cm) (pc,au) / incompatible (m,s) / plain ndarray or number mixed in",
                    "dtypes": "f64 everywhere; f32, i64 on the unary and binary ufuncs", "keyword forms": "axis=0/1/None, out="},
          "thorough": {"as": "quick plus (3,) arrays, i32, unit pairs (M_sun,g) (km/s,cm/s) (yr,s)"}}

CMPOP = {"less": "lt", "less_equal": "le", "greater": "gt", "greater_equal": "ge", "equal": "eq", "not_equal": "ne"}
AXIS_FUNCS = ["sum", "mean", "min", "amin", "max", "amax", "median", "std", "cumsum", "sort", "diff", "nansum", "nanmax",
              "argsort", "argmax"]


def configs(tier):
    out = []
    ups = [("m", "m"), ("m", "cm"), ("pc", "au"), ("m", "s"), ("cm", "dimensionless")]
    if tier != "quick":
        ups += [("M_sun", "g"), ("km/s", "cm/s"), ("yr", "s"), ("g", "cm")]
    shapes = [[2]] if tier == "quick" else [[2], [3]]
    for fn, (cls, ar) in CATALOGUE.items():
        dts = ["float64"]
        if cls in ("same", "samebin", "mul", "div", "sqrt", "square", "recip", "pow") and fn not in ("median", "std", "where", "clip", "nanstd", "nanmedian", "average"):
            dts = ["float64", "float32", "int64"] + (["int32"] if tier != "quick" else [])
        if cls == "recip":
            dts = [d for d in dts if np.dtype(d).kind == "f"]    # numpy's integer reciprocal is an integer division
        for dt in dts:
            for shape in shapes:
                if ar == 1:
                    for ua in (["m", "cm", "dimensionless", "g/cm**3"] if dt == "float64" else ["m"]):
                        if cls == "pow":
                            for k in (2, 3, -1, 0.5):
                                if np.dtype(dt).kind == "i" and k == -1:
                                    continue
                                out.append(dict(fn=fn, ua=ua, dt=dt, shape=shape, k=k, form="plain"))
                        else:
                            out.append(dict(fn=fn, ua=ua, dt=dt, shape=shape, form="plain"))
                else:
                    for ua, ub in (ups if dt == "float64" else ups[:2]):
                        out.append(dict(fn=fn, ua=ua, ub=ub, dt=dt, shape=shape, form="plain", other="Array"))
                    if dt == "float64":
                        for other in ("ndarray", "number"):
                            if fn in LIST_ARG + ("append",) and other == "number":
                                continue            # numpy itself refuses 0-d operands

                            for ua in ("m", "dimensionless"):
                                out.append(dict(fn=fn, ua=ua, ub="dimensionless", dt=dt, shape=shape, form="plain", other=other))
    for fn in AXIS_FUNCS:
        for axis in (0, 1, None):
            if fn == "diff" and axis is None:
                continue                # not a valid numpy call
            out.append(dict(fn=fn, ua="m", dt="float64", shape=[2, 2], form="axis", axis=axis))
    for axis in (0, 1):
        for ua, ub in [("m", "m"), ("m", "cm")]:
            out.append(dict(fn="concatenate", ua=ua, ub=ub, dt="float64", shape=[2, 2], form="axis", axis=axis, other="Array"))
    for ua in ("m", "dimensionless"):
        for kform in ("0d-ndarray", "np.float64", "np.int64"):
            out.append(dict(fn="power", ua=ua, dt="float64", shape=[2], k=2, kform=kform, form="plain"))
    for fn in ("add", "multiply", "divide", "subtract", "sqrt", "negative", "square"):
        for ua, ub in [("m", "m"), ("m", "cm"), ("m", "s")]:
            out.append(dict(fn=fn, ua=ua, ub=ub, dt="float64", shape=[2], form="out", other="Array"))
    # ufunc METHODS (np.multiply.reduce, np.add.outer, ...): refused (TypeError) or dimensionally right
    for fn, method in UFUNC_METHODS:
        for ua, ub in ([("m", "m"), ("m", "cm"), ("m", "s")] if method == "outer" else [("m", "m"), ("dimensionless", "dimensionless")]):
            out.append(dict(fn=fn, method=method, ua=ua, ub=ub, dt="float64", shape=[2], form="method"))
    return out


UFUNC_METHODS = [("add", "reduce"), ("maximum", "reduce"), ("add", "accumulate"), ("multiply", "reduce"), ("multiply", "accumulate"),
                 ("multiply", "outer"), ("divide", "outer"), ("add", "outer"), ("subtract", "outer")]


def _ufunc_method(m, cfg):
    """np.<ufunc>.<method> on Arrays: a refusal (TypeError: osyris does not support ufunc methods) is fine; an answer must carry
    the unit dimensional analysis gives (and operands of different units must have been converted, or the call raise)."""
    from osyris import Array
    from pint.errors import DimensionalityError
    fn, method, ua, ub = cfg["fn"], cfg["method"], cfg["ua"], cfg["ub"]
    tag = f"np.{fn}.{method}:{ua}:{ub}"
    fa, da = C.fd(ua)
    fb, db = C.fd(ub)
    n = 2
    a_raw = m.array("a", (n,), "float64")
    a = Array(a_raw, unit=ua)
    av = [m.t(t) * fa for t in m.vals(a_raw)]
    f = getattr(getattr(np, fn), method)
    args = [a]
    if method == "outer":
        b_raw = m.array("b", (n,), "float64")
        args.append(Array(b_raw, unit=ub))
        bv = [m.t(t) * fb for t in m.vals(b_raw)]
        if fn == "divide":
            for t in bv:
                m.assume(m.Not(m.eq(t, 0)))
    try:
        r = f(*args)
    except TypeError:
        m.ok("ufunc method refused")
        return
    except DimensionalityError:
        m.require(method == "outer" and fn in ("add", "subtract") and da != db, "DimensionalityError only for incompatible operands",
                  key=f"unexpected-raise:{tag}")
        return
    if method == "outer" and fn in ("add", "subtract") and da != db:
        m.fail("operands of incompatible dimensions were combined", key=f"no-raise:{tag}")
        return
    if not m.require(isinstance(r, Array), "result is an Array", key=f"type:{tag}"):
        return
    dimless = (0, 0, 0, 0, 0)
    if method == "outer":
        dim = {"multiply": U.dim_mul(da, db), "divide": U.dim_mul(da, U.dim_inv(db)), "add": da, "subtract": da}[fn]
        op = {"multiply": lambda x, y: x * y, "divide": lambda x, y: x / y, "add": lambda x, y: x + y, "subtract": lambda x, y: x - y}[fn]
        ex = [op(x, y) for x in av for y in bv]
    elif fn == "multiply":
        if method == "accumulate" and tuple(da) != dimless:
            m.fail("a cumulative product of dimensional values has no single unit: must be refused", key=f"unit:{tag}")
            return
        dim = U.dim_pow(da, n) if method == "reduce" else da
        ex = [av[0] * av[1]] if method == "reduce" else [av[0], av[0] * av[1]]
    else:
        dim = da
        if fn == "add":
            ex = [av[0] + av[1]] if method == "reduce" else [av[0], av[0] + av[1]]
        else:
            ex = None            # maximum.reduce: value not re-derived here (np.max is in the catalogue)
    try:
        fr, dr = U.factor_dim(r.unit)
    except U.UnknownUnit as e:
        m.fail(f"unknown unit {e}", key=f"unit:{tag}")
        return
    if not m.require(tuple(dr) == tuple(dim), "result unit follows dimensional analysis", key=f"unit:{tag}", info=str(r.unit)):
        return
    if ex is not None:
        rv = m.vals(r._array)
        if m.require(len(rv) == len(ex), "result size", key=f"shape:{tag}"):
            m.check("values equal the operation on the physical quantities", m.And([m.close(m.t(y) * fr, e) for y, e in zip(rv, ex)]),
                    key=f"value:{tag}")


# ----------------------------------------------------------------------------- helpers


def _np_call(fn, args, **kw):
    f = getattr(np, fn)
    if fn in LIST_ARG:
        return f(list(args), **kw)
    return f(*args, **kw)


def _flat(m, x):
    return m.vals(x)


def body(m, cfg):
    import osyris
    from osyris import Array
    from pint.errors import DimensionalityError
    from symx.arr import sarray
    if cfg.get("method"):
        return _ufunc_method(m, cfg)
    fn, dt, shape, form = cfg["fn"], cfg["dt"], tuple(cfg["shape"]), cfg["form"]
    m.dtype_tol(dt)
    cls, ar = CATALOGUE[fn]
    ua = cfg["ua"]
    fa, da = C.fd(ua)
    a_raw = m.array("a", shape, dt)
    a = Array(a_raw, unit=ua)
    av = m.vals(a_raw)
    other = cfg.get("other")
    ub = cfg.get("ub", ua)
    fb, db = C.fd(ub)
    ucase = "unary" if ar == 1 and form != "out" else \
        (other if other in ("ndarray", "number") else ("same" if ua == ub else ("compat" if da == db else "incompat")))
    if form == "out" and ar == 1:
        ucase = "unary"
    tag = f"np.{fn}:{ucase}:{C.DT_SHORT[dt]}:{form}" + (f":axis={cfg['axis']}" if form == "axis" else "") + \
          (f":k={cfg['k']}" if "k" in cfg else "") + (f":{cfg['kform']}" if "kform" in cfg else "")
    kw = {}
    if form == "axis":
        kw["axis"] = cfg["axis"]

    def mk_cgs(vals, f):
        """array of the values times f, as SymArray / ndarray (for the oracle call)."""
        xs = [m.t(v) * f for v in vals]
        if m.symbolic:
            from symx.core import SReal
            return sarray([SReal(x) for x in xs], "float64").reshape(shape)
        return np.array(xs, dtype=float).reshape(shape)

    a_cgs = mk_cgs(av, fa)
    args = [a]
    oargs = [a_cgs]
    scale_terms = [m.abs(m.t(v) * fa) for v in av]
    if ar >= 2 or (form == "out" and ar == 2):
        if fn == "where":
            cond_src = m.array("c", shape, "float64")
            cond = Array(cond_src) > 0
            condv = np.asarray(cond._array)
        if other == "Array":
            b_raw = m.array("b", shape, dt)
            b = Array(b_raw, unit=ub)
        elif other == "ndarray":
            b_raw = m.array("b", shape, dt)
            b = b_raw
        else:
            b_raw = m.number("b_0", dt)
            b = b_raw
        bv = m.vals(b_raw)
        if other == "number":
            bv = bv * len(av)
        b_cgs = mk_cgs(bv, fb)
        scale_terms += [m.abs(m.t(v) * fb) for v in bv]
        if cls == "div":
            for t in bv:
                m.assume(m.Not(m.eq(t, 0)))
        if fn == "where":
            args, oargs = [cond, a, b], [condv, a_cgs, b_cgs]
        elif fn == "clip":
            c_raw = m.array("hi", shape, dt)
            cv = m.vals(c_raw)
            cc = Array(c_raw, unit=ub) if other == "Array" else c_raw
            args, oargs = [a, b, cc], [a_cgs, b_cgs, mk_cgs(cv, fb)]
            scale_terms += [m.abs(m.t(v) * fb) for v in cv]
        else:
            args, oargs = [a, b], [a_cgs, b_cgs]
    if cls == "pow":
        k = cfg["k"]
        kobj = {"0d-ndarray": np.array(float(k)), "np.float64": np.float64(k), "np.int64": np.int64(k)}.get(cfg.get("kform"), k)
        args.append(kobj)
        oargs.append(k)
        if k < 0:
            for t in av:
                m.assume(m.Not(m.eq(t, 0)))
        if k == 0.5:
            for t in av:
                m.assume(m.ge(t, 0))
    if cls in ("sqrt",):
        for t in av:
            m.assume(m.ge(t, 0))
    if cls == "recip":
        for t in av:
            m.assume(m.Not(m.eq(t, 0)))
    if fn in ("logical_and", "logical_or", "logical_not"):
        # boolean operands: built by comparisons so that every truth pattern is a path
        pa = Array(a_raw) > 0
        args = [pa] + ([Array(b_raw) > 0] if ar == 2 and other == "Array" else ([np.asarray((Array(b_raw) > 0)._array)] if ar == 2 and other == "ndarray" else ([True] if ar == 2 else [])))
        oargs = [np.asarray(x._array) if isinstance(x, Array) else x for x in args]
        da = db = (0, 0, 0, 0, 0)
        fa = fb = 1.0
    out_arr = None
    if form == "out":
        out_arr = Array(m.array("o", shape, "float64"), unit="kg")
        kw["out"] = out_arr
    # dimensional expectations
    unit_args_compatible = (ar == 1 and form != "out") or cls in ("mul", "div", "pow") or da == db \
        or fn in ("logical_and", "logical_or", "logical_not") or ar == 1
    must_agree = cls in ("samebin", "pred") and ar >= 2
    snap = C.snapshot(m, a)
    try:
        r = _np_call(fn, args, **kw)
    except DimensionalityError:
        m.require(must_agree and da != db, "raises DimensionalityError only for incompatible operands", key=f"unexpected-raise:{tag}")
        return
    except (TypeError, ValueError) as e:
        m.fail(f"call raises {type(e).__name__}: {str(e)[:80]}", key=f"raises-{type(e).__name__}:{tag}")
        return
    if must_agree and da != db:
        m.fail("operands of incompatible dimensions were combined", key=f"no-raise:{tag}")
        return
    # oracle: the same numpy function on the CGS values
    okw = {k: v for k, v in kw.items() if k != "out"}
    ex = _np_call(fn, oargs, **okw)
    if form == "out":
        m.require(r is out_arr, "out= returns the given Array", key=f"out-identity:{tag}")
    if cls == "index":
        got = np.asarray(r._array if isinstance(r, Array) else r)
        m.require(np.array_equal(got, np.asarray(ex)), "indices equal numpy's on the raw values", key=f"value:{tag}")
        return
    if not m.require(isinstance(r, Array), "result is an Array", key=f"type:{tag}"):
        return
    exs = np.shape(ex)
    m.require(tuple(r.shape) == tuple(exs), "result shape is numpy's", key=f"shape:{tag}")
    if cls == "pred":
        m.require("dimensionless" in str(r.unit), "predicate result is dimensionless", key=f"unit:{tag}")
        m.require(np.dtype(r.dtype) == np.dtype(bool), "predicate result is boolean", key=f"dtype:{tag}")
        got = [bool(v) for v in np.asarray(r._array).ravel().tolist()]
        if fn in CMPOP and len(got) == len(av):
            # verdicts against the physical relation, with a dead band of relative width 1e-9 when a
            # conversion is involved (as C07)
            from harness.c07 import _verdict_ok
            exact = (ua == ub)
            fs = [_verdict_ok(m, CMPOP[fn], g, m.t(x) * fa, m.t(y) * fb, exact, tol=C.tol_for(ua, ub)) for g, x, y in zip(got, av, bv)]
            m.check("predicate agrees with the physical comparison", m.And(fs), key=f"value:{tag}")
        else:
            m.require(got == [bool(v) for v in np.asarray(ex).ravel().tolist()],
                      "predicate equals numpy on the physical values", key=f"value:{tag}")
        return
    dim = {"same": da, "samebin": da, "mul": U.dim_mul(da, db), "div": U.dim_mul(da, U.dim_inv(db)),
           "pow": U.dim_pow(da, cfg.get("k", 1)), "sqrt": U.dim_pow(da, 0.5), "square": U.dim_pow(da, 2),
           "cbrt": U.dim_pow(da, 1.0 / 3), "recip": U.dim_inv(da)}[cls]
    try:
        fr, dr = U.factor_dim(r.unit)
    except U.UnknownUnit as e:
        m.fail(f"unknown unit {e}", key=f"unit:{tag}")
        return
    if not m.require(dr == tuple(dim), "result unit follows dimensional analysis", key=f"unit:{tag}", info=str(r.unit)):
        return
    rv = m.vals(r._array)
    ev = m.vals(ex)
    m.observe("result", r._array)
    if len(rv) != len(ev):
        return
    tol = C.tol_for(ua, ub)
    root = 2 if (cls == "sqrt" or fn in ("std", "nanstd") or (cls == "pow" and cfg.get("k") == 0.5)) else (3 if cls == "cbrt" else 1)
    sc = None
    if cls in ("same", "samebin") and root == 1:
        sc = scale_terms[0]
        for s in scale_terms[1:]:
            sc = sc + s
    fs = []
    for y, e in zip(rv, ev):
        if y is None or e is None:
            fs.append(m.close(y, e))
            continue
        y = m.t(y) * fr
        e = m.t(e)
        if root == 2:
            fs.append(m.And(m.close(y * y, e * e, tol=tol), m.ge(y, 0)))
        elif root == 3:
            fs.append(m.close(y * y * y, e * e * e, tol=tol))
        else:
            fs.append(m.close(y, e, tol=tol, scale=sc))
    m.check("values equal numpy's on the physical quantities", m.And(fs), key=f"value:{tag}")
    if form != "out":
        m.require(C.unchanged(m, a, snap), "argument unchanged", key=f"operands-changed:{tag}")
