"""C09 -- Vector operations are the component-wise lifting of Array operations; norm, dot
and cross obey the laws of the Euclidean norm, scalar and vector product as physical
quantities."""
import itertools

import numpy as np

from harness import common as C
from oracles import units as U

PROP = "C09"
FILES = ["src/osyris/core/vector.py", "src/osyris/core/array.py"]
FUNCTIONS = ["osyris.core.vector._binary_op", "osyris.core.vector.Vector.__add__ ... __xor__ (all dunders)",
             "osyris.core.vector.Vector._wrap_numpy", "osyris.core.vector.Vector.norm", "osyris.core.vector.Vector.dot",
             "osyris.core.vector.Vector.cross", "osyris.core.vector.Vector.__init__/_validate_component"]
ASSUMPTIONS = ["division-by-zero and sqrt-of-negative paths are cut",
               "lifting is checked against the Array operation executed in the same run (the Array layer is C02/C07)"]
BOUNDS = {"quick": {"components": "all symbolic, 1-2 rows", "nvec": "1,2,3", "operators": "+ - * / ** neg < <= > >= == != & | ^ ~ r* r/ r+ r-",
                    "rhs kinds": "Vector (same/other nvec), Array, int, float, ndarray, Quantity",
                    "unit pairs": "(m,m) (m,cm) (cm,pc) (g,s) (m,dimensionless) (M_sun... thorough)", "numpy": "sqrt abs negative add concatenate",
                    "dot/cross": "1 row, unit pairs equal / compatible-different / unrelated"},
          "thorough": {"as": "quick, plus 2x2 shapes, f32/i64 dtypes, 4 more unit pairs"}}
FLOOR = {"quick": 1200, "thorough": 4000}
SHADOW_EVERY = 2
LIMITS = {"quick": {"max_paths": 300, "budget_s": 120}, "thorough": {"max_paths": 2000, "budget_s": 600}}

ARITH = {"add": lambda a, b: a + b, "sub": lambda a, b: a - b, "mul": lambda a, b: a * b, "div": lambda a, b: a / b}
COMP = {"lt": lambda a, b: a < b, "le": lambda a, b: a <= b, "gt": lambda a, b: a > b, "ge": lambda a, b: a >= b,
        "eq": lambda a, b: a == b, "ne": lambda a, b: a != b}
REFL = {"rmul": lambda k, v: k * v, "rdiv": lambda k, v: k / v, "radd": lambda k, v: k + v, "rsub": lambda k, v: k - v}
UPAIRS_Q = [("m", "m"), ("m", "cm"), ("cm", "pc"), ("g", "s"), ("dimensionless", "dimensionless"), ("m", "dimensionless")]
UPAIRS_T = UPAIRS_Q + [("M_sun", "g"), ("km/s", "cm/s"), ("erg", "J"), ("s", "m")]


def configs(tier):
    out = []
    ups = UPAIRS_Q if tier == "quick" else UPAIRS_T
    shapes = [[1], [2]] if tier == "quick" else [[], [2], [2, 2]]
    dts = ["float64"] if tier == "quick" else ["float64", "float32", "int64"]
    for op in list(ARITH) + list(COMP):
        for nvec in (1, 2, 3):
            for rhs in ("Vector", "Array", "int", "float", "ndarray", "Quantity"):
                for (ua, ub), shape, dt in itertools.product(ups, shapes, dts):
                    if rhs in ("int", "float", "ndarray") and ub != "dimensionless":
                        continue
                    if op in COMP and shape == [2, 2]:
                        continue
                    if tier == "quick" and nvec != 3 and (ua, ub) not in (("m", "cm"), ("dimensionless", "dimensionless")):
                        continue
                    out.append(dict(kind="lift", op=op, nvec=nvec, rhs=rhs, ua=ua, ub=ub, shape=shape, dt=dt))
        for rhs in ("float", "int", "Array"):
            out.append(dict(kind="lift", op=op, nvec=2, rhs=rhs, ua="dimensionless", ub="dimensionless", shape=[2], dt="int64"))
            out.append(dict(kind="lift", op=op, nvec=3, rhs=rhs, ua="dimensionless", ub="dimensionless", shape=[1], dt="float32"))
        out.append(dict(kind="nvec-mismatch", op=op, na=3, nb=2))
        out.append(dict(kind="nvec-mismatch", op=op, na=1, nb=3))
        out.append(dict(kind="nvec-mismatch", op=op, na=2, nb=3))
    for op in REFL:
        for nvec in (1, 2, 3):
            for lk in ("int", "float"):       # an ndarray on the left is not among the claimed operand kinds
                for ua in ("m", "dimensionless"):
                    out.append(dict(kind="refl", op=op, nvec=nvec, lhs=lk, ua=ua, shape=[2], dt="float64"))
        out.append(dict(kind="refl", op=op, nvec=2, lhs="float", ua="dimensionless", shape=[2], dt="int64"))
    for op in ("neg", "pow2", "pow-1", "pow0.5", "invert", "and", "or", "xor"):
        for nvec in (1, 2, 3):
            out.append(dict(kind="unary", op=op, nvec=nvec, dt="float64",
                            shape=([1] if op in ("invert", "and", "or", "xor") else [2]),
                            ua=("dimensionless" if op in ("invert", "and", "or", "xor") else "m")))
    for fn in ("sqrt", "abs", "negative", "add", "concatenate", "multiply"):
        for nvec in (1, 2, 3):
            for ua, ub in [("m", "m"), ("m", "cm")]:
                out.append(dict(kind="numpy", fn=fn, nvec=nvec, ua=ua, ub=ub, shape=[2], dt="float64"))
    for nvec in (1, 2, 3):
        for ua in ("m", "cm", "km/s", "dimensionless"):
            for shape in shapes:
                out.append(dict(kind="norm", nvec=nvec, ua=ua, shape=shape, dt="float64"))
    for ua, ub in [("m", "m"), ("m", "cm"), ("cm", "m"), ("cm", "pc"), ("cm", "cm/s"), ("g", "dimensionless"), ("km/s", "g")] + \
            ([("au", "pc"), ("erg", "J")] if tier != "quick" else []):
        for law in ("dot-value", "dot-symmetry", "cross-value", "cross-antisymmetry", "triple", "lagrange"):
            out.append(dict(kind="product", law=law, ua=ua, ub=ub, shape=[1], dt="float64"))
    for nvec in (1, 2):
        out.append(dict(kind="product", law="dot-value", ua="m", ub="cm", shape=[2], dt="float64", nvec=nvec))
    out.append(dict(kind="ctor"))
    # the norm after an in-place change of the Vector (a remembered norm must not be observable)
    for mut in ("imul", "iadd", "comp-iadd", "set"):
        for nvec in (2, 3):
            out.append(dict(kind="norm", nvec=nvec, ua="m", shape=[2], dt="float64", mut=mut))
    # components assigned after construction (v.z = ..., v.x = ...): every operation must see the current components
    for late in ("add", "replace"):
        for nvec in (2, 3):
            for op in ("add", "mul", "lt", "eq"):
                for rhs in ("Vector", "float", "Array"):
                    if op in ("add", "lt", "eq") and rhs == "float":
                        continue
                    out.append(dict(kind="lift", op=op, nvec=nvec, rhs=rhs, ua="m", ub=("cm" if rhs != "float" else "dimensionless"),
                                    shape=[2], dt="float64", late=late))
            for op in ("neg", "pow2"):
                out.append(dict(kind="unary", op=op, nvec=nvec, dt="float64", shape=[2], ua="m", late=late))
            for fn in ("abs", "add"):
                out.append(dict(kind="numpy", fn=fn, nvec=nvec, ua="m", ub="cm", shape=[2], dt="float64", late=late))
            out.append(dict(kind="norm", nvec=nvec, ua="m", shape=[2], dt="float64", late=late))
            for op in ("mul", "div"):
                out.append(dict(kind="refl", op="r" + op, nvec=nvec, lhs="float", ua="m", shape=[2], dt="float64", late=late))
        for law in ("dot-value", "cross-value", "lagrange"):
            out.append(dict(kind="product", law=law, ua="m", ub="cm", shape=[1], dt="float64", late=late))
    return out


_LATE = [None]


def mkvec(m, name, nvec, shape, dt, unit):
    """A Vector of fresh symbolic components.  With the configuration's `late` option the last component is ADDED after
    construction ('add': Vector(x, y) then v.z = ...) or the first one is REPLACED after construction ('replace'):
    operations must see the components the Vector has now."""
    from osyris import Vector, Array
    comps = [m.array(f"{name}{'xyz'[i]}", tuple(shape), dt) for i in range(nvec)]
    late = _LATE[0]
    if late == "add" and nvec >= 2:
        v = Vector(*comps[:-1], unit=unit)
        setattr(v, "xyz"[nvec - 1], Array(comps[-1], unit=unit))
        return v
    if late == "replace":
        v = Vector(m.array(f"{name}old", tuple(shape), dt), *comps[1:], unit=unit)
        v.x = Array(comps[0], unit=unit)
        return v
    return Vector(*comps, unit=unit)


def comp_equal(m, label, key, got, want, tol=None):
    """got / want: osyris Arrays; same terms (to 1e-9) and same unit, or same booleans."""
    from osyris import Array
    if not m.require(isinstance(got, Array) and isinstance(want, Array), label + " (type)", key=key):
        return
    if not m.require(str(got.unit) == str(want.unit), label + " (unit)", key=key + ":unit",
                     info=f"{got.unit} vs {want.unit}"):
        return
    if not m.require(tuple(got.shape) == tuple(want.shape), label + " (shape)", key=key + ":shape"):
        return
    if np.dtype(want.dtype) == np.dtype(bool):
        m.require(np.dtype(got.dtype) == np.dtype(bool) and
                  np.array_equal(np.asarray(got._array), np.asarray(want._array)), label + " (booleans)", key=key)
        return
    m.check(label, m.all_close(m.vals(got._array), m.vals(want._array), tol=tol), key=key)


def body(m, cfg):
    import osyris
    from osyris import Array, Vector
    from pint.errors import DimensionalityError
    kind = cfg["kind"]
    _LATE[0] = cfg.get("late")
    if kind == "ctor":
        x = Array(m.array("x", (2,), "float64"), unit="m")
        try:
            Vector(x, Array(m.array("y", (3,), "float64"), unit="m"))
            m.fail("component of another shape accepted", key="ctor:shape")
        except ValueError:
            m.ok("component of another shape rejected")
        try:
            Vector(x, Array(m.array("y2", (2,), "float64"), unit="s"))
            m.fail("component of another unit accepted", key="ctor:unit")
        except ValueError:
            m.ok("component of another unit rejected")
        try:
            Vector(x, unit="m")
            m.fail("unit given together with Array components accepted", key="ctor:unit-arg")
        except ValueError:
            m.ok("unit together with Arrays rejected")
        return
    if kind == "nvec-mismatch":
        a = mkvec(m, "a", cfg["na"], [2], "float64", "m")
        b = mkvec(m, "b", cfg["nb"], [2], "float64", "m")
        f = dict(ARITH, **COMP)[cfg["op"]]
        try:
            f(a, b)
            m.fail("operands with different numbers of components accepted", key=f"nvec:{cfg['op']}")
        except ValueError:
            m.ok("different number of components rejected")
        return
    shape, dt = cfg.get("shape", [2]), cfg.get("dt", "float64")
    m.dtype_tol(dt)
    if kind == "lift":
        op, nvec, rhs, ua, ub = cfg["op"], cfg["nvec"], cfg["rhs"], cfg["ua"], cfg["ub"]
        tag = f"{op}:{rhs}:n{nvec}" + (":late-" + cfg["late"] if cfg.get("late") else "")
        v = mkvec(m, "a", nvec, shape, dt, ua)
        if rhs == "Vector":
            w = mkvec(m, "b", nvec, shape, dt, ub)
            wc = dict(C.vcomps(w))
            bterms = [t for c in wc.values() for t in m.vals(c._array)]
        else:
            if rhs == "Array":
                w = Array(m.array("b", tuple(shape), dt), unit=ub)
                bterms = m.vals(w._array)
            elif rhs in ("int", "float"):
                w = m.number("b_0", "int64" if rhs == "int" else "float64")
                bterms = [m.t(w)]
            elif rhs == "ndarray":
                w = m.array("b", tuple(shape), dt)
                bterms = m.vals(w)
            else:
                mag = m.array("b", tuple(shape), dt)
                w = osyris.units._ureg.Quantity(mag, ub)
                bterms = m.vals(mag)
            wc = {c: w for c in "xyz"[:nvec]}
        f = dict(ARITH, **COMP)[op]
        if op == "div":
            for t in bterms:
                m.assume(m.Not(m.eq(t, 0)))
        want, exc = {}, None
        try:
            for c in "xyz"[:nvec]:
                want[c] = f(getattr(v, c), wc[c])
        except DimensionalityError as e:
            exc = e
        try:
            r = f(v, w)
        except DimensionalityError:
            m.require(exc is not None, "Vector op raises only when the Array op does", key=f"unexpected-raise:{tag}")
            return
        if exc is not None:
            m.fail("Array op raises but the Vector op answered", key=f"no-raise:{tag}")
            return
        if not m.require(isinstance(r, Vector) and r.nvec == nvec, "result is a Vector with the same components",
                         key=f"type:{tag}"):
            return
        for c in "xyz"[:nvec]:
            comp_equal(m, f"component {c} equals the Array operation", f"lift:{tag}:{c}", getattr(r, c), want[c])
        return
    if kind == "refl":
        op, nvec, lk, ua = cfg["op"], cfg["nvec"], cfg["lhs"], cfg["ua"]
        tag = f"{op}:{lk}:n{nvec}" + (":late-" + cfg["late"] if cfg.get("late") else "")
        v = mkvec(m, "a", nvec, shape, dt, ua)
        k = m.array("k", tuple(shape), "float64") if lk == "ndarray" else m.number("k_0", "int64" if lk == "int" else "float64")
        if op == "rdiv":
            for c in C.vcomps(v).values():
                for t in m.vals(c._array):
                    m.assume(m.Not(m.eq(t, 0)))
        fa, da = C.fd(ua)
        try:
            r = REFL[op](k, v)
        except DimensionalityError:
            m.require(op in ("radd", "rsub") and ua != "dimensionless", "raises only for incompatible dimensions",
                      key=f"unexpected-raise:{tag}")
            return
        if op in ("radd", "rsub") and ua != "dimensionless":
            m.fail("number + dimensional Vector answered", key=f"no-raise:{tag}")
            return
        if not m.require(isinstance(r, Vector) and r.nvec == nvec, "result is a Vector", key=f"type:{tag}"):
            return
        kv = m.vals(k) if lk == "ndarray" else None
        for c in "xyz"[:nvec]:
            got = getattr(r, c)
            av = m.vals(getattr(v, c)._array)
            ks = kv if kv is not None else [m.t(k)] * len(av)
            ex = [{"rmul": lambda: kk * x, "rdiv": lambda: kk / x, "radd": lambda: kk + x, "rsub": lambda: kk - x}[op]()
                  for kk, x in zip(ks, [m.t(x) for x in av])]
            dim = U.dim_inv(da) if op == "rdiv" else da
            if not m.require(C.unit_dim_ok(got.unit, dim), "unit of the reflected operation", key=f"refl-unit:{tag}:{c}"):
                continue
            fr = C.fd(got.unit)[0]
            fexp = (1 / fa) if op == "rdiv" else fa
            m.check("reflected operation value", m.And([m.close(m.t(g) * fr, e * fexp) for g, e in
                                                         zip(m.vals(got._array), ex)]), key=f"refl:{tag}:{c}")
        return
    if kind == "unary":
        op, nvec = cfg["op"], cfg["nvec"]
        tag = f"{op}:n{nvec}" + (":late-" + cfg["late"] if cfg.get("late") else "")
        v = mkvec(m, "a", nvec, shape, dt, cfg["ua"])
        if op in ("invert", "and", "or", "xor"):
            w = mkvec(m, "b", nvec, shape, dt, cfg["ua"])
            pv, pw = v > 0, w > 0
            r = {"invert": lambda: ~pv, "and": lambda: pv & pw, "or": lambda: pv | pw, "xor": lambda: pv ^ pw}[op]()
            for c in "xyz"[:nvec]:
                x, y = getattr(pv, c), getattr(pw, c)
                want = {"invert": lambda: ~x, "and": lambda: x & y, "or": lambda: x | y, "xor": lambda: x ^ y}[op]()
                comp_equal(m, "logical op lifts", f"lift:{tag}:{c}", getattr(r, c), want)
            return
        if op in ("pow-1",):
            for c in C.vcomps(v).values():
                for t in m.vals(c._array):
                    m.assume(m.Not(m.eq(t, 0)))
        if op == "pow0.5":
            for c in C.vcomps(v).values():
                for t in m.vals(c._array):
                    m.assume(m.ge(t, 0))
        g = {"neg": lambda z: -z, "pow2": lambda z: z ** 2, "pow-1": lambda z: z ** -1, "pow0.5": lambda z: z ** 0.5}[op]
        r = g(v)
        if not m.require(isinstance(r, Vector) and r.nvec == nvec, "result is a Vector", key=f"type:{tag}"):
            return
        for c in "xyz"[:nvec]:
            want = g(getattr(v, c))
            if op == "pow0.5":
                # two independent square roots: compare their squares
                got = getattr(r, c)
                m.require(str(got.unit) == str(want.unit), "unit", key=f"lift:{tag}:{c}:unit")
                m.check("sqrt lifts", m.And([m.And(m.close(m.t(p) * m.t(p), m.t(q) * m.t(q)), m.ge(p, 0)) for p, q in
                                             zip(m.vals(got._array), m.vals(want._array))]), key=f"lift:{tag}:{c}")
            else:
                comp_equal(m, "unary op lifts", f"lift:{tag}:{c}", getattr(r, c), want)
        return
    if kind == "numpy":
        fn, nvec, ua, ub = cfg["fn"], cfg["nvec"], cfg["ua"], cfg["ub"]
        tag = f"np.{fn}:n{nvec}:{'same' if ua == ub else 'mixed'}" + (":late-" + cfg["late"] if cfg.get("late") else "")
        v = mkvec(m, "a", nvec, shape, dt, ua)
        w = mkvec(m, "b", nvec, shape, dt, ub)
        if fn == "sqrt":
            for c in C.vcomps(v).values():
                for t in m.vals(c._array):
                    m.assume(m.ge(t, 0))
        call = {"sqrt": lambda p, q: np.sqrt(p), "abs": lambda p, q: np.abs(p), "negative": lambda p, q: np.negative(p),
                "add": lambda p, q: np.add(p, q), "multiply": lambda p, q: np.multiply(p, q),
                "concatenate": lambda p, q: np.concatenate([p, q])}[fn]
        want, exc = {}, None
        try:
            for c in "xyz"[:nvec]:
                want[c] = call(getattr(v, c), getattr(w, c))
        except Exception as e:          # the Array layer's own behaviour for this call is C10's subject
            exc = e
        try:
            r = call(v, w)
        except Exception as e:
            m.require(exc is not None and type(e) is type(exc), "Vector call raises like the Array call",
                      key=f"unexpected-raise:{tag}")
            return
        if exc is not None:
            m.fail("Array call raises but Vector call answered", key=f"no-raise:{tag}")
            return
        if not m.require(isinstance(r, Vector) and r.nvec == nvec, "result is a Vector", key=f"type:{tag}"):
            return
        for c in "xyz"[:nvec]:
            if fn == "sqrt":
                got = getattr(r, c)
                m.require(str(got.unit) == str(want[c].unit), "unit", key=f"lift:{tag}:{c}:unit")
                m.check("sqrt lifts", m.And([m.And(m.close(m.t(p) * m.t(p), m.t(q) * m.t(q)), m.ge(p, 0)) for p, q in
                                             zip(m.vals(got._array), m.vals(want[c]._array))]), key=f"lift:{tag}:{c}")
            else:
                comp_equal(m, "numpy function lifts", f"lift:{tag}:{c}", getattr(r, c), want[c])
        return
    if kind == "norm":
        nvec, ua = cfg["nvec"], cfg["ua"]
        tag = f"norm:n{nvec}" + (":late-" + cfg["late"] if cfg.get("late") else "")
        v = mkvec(m, "a", nvec, shape, dt, ua)
        if cfg.get("mut"):
            # the norm asked for once, then the Vector changed in place, then the norm under check
            tag += ":after-" + cfg["mut"]
            v.norm
            str(v)
            if cfg["mut"] == "imul":
                v *= 2.0
            elif cfg["mut"] == "iadd":
                v += mkvec(m, "w", nvec, shape, dt, ua)
            elif cfg["mut"] == "comp-iadd":
                v.x += Array(m.array("d", tuple(shape), dt), unit=ua)
            elif cfg["mut"] == "set":
                v.x.values[0] = m.real("nv")
        n = v.norm
        if not m.require(isinstance(n, Array) and tuple(n.shape) == tuple(shape), "norm is an Array of the row shape",
                         key=f"type:{tag}"):
            return
        m.require(str(n.unit) == str(v.unit), "norm carries the Vector's unit", key=f"norm-unit:{tag}")
        nv = m.vals(n._array)
        cs = [m.vals(c._array) for c in C.vcomps(v).values()]
        fs = []
        for i, t in enumerate(nv):
            ss = sum((m.t(c[i]) * m.t(c[i]) for c in cs[1:]), m.t(cs[0][i]) * m.t(cs[0][i]))
            if nvec == 1:
                # osyris defines the norm of a 1-component vector as the component itself
                fs.append(m.close(m.t(t) * m.t(t), ss))
            else:
                fs.append(m.And(m.close(m.t(t) * m.t(t), ss), m.ge(t, 0)))
        m.check("norm squared is the sum of squared components", m.And(fs), key=f"norm:{tag}")
        return
    if kind == "product":
        return _product(m, cfg)


def _product(m, cfg):
    from osyris import Array, Vector
    law, ua, ub, shape, dt = cfg["law"], cfg["ua"], cfg["ub"], cfg["shape"], cfg["dt"]
    nvec = cfg.get("nvec", 3)
    tag = f"{law}:{'same' if ua == ub else ('compat' if C.fd(ua)[1] == C.fd(ub)[1] else 'unrelated')}" + \
          (f":n{nvec}" if nvec != 3 else "")
    a = mkvec(m, "a", nvec, shape, dt, ua)
    b = mkvec(m, "b", nvec, shape, dt, ub)
    fa, da = C.fd(ua)
    fb, db = C.fd(ub)
    dprod = U.dim_mul(da, db)
    n = int(np.prod(shape)) if shape else 1
    A = [[m.t(t) * fa for t in m.vals(c._array)] for c in C.vcomps(a).values()]
    B = [[m.t(t) * fb for t in m.vals(c._array)] for c in C.vcomps(b).values()]

    def phys(arr):
        """physical (CGS) terms of an osyris Array whose unit must have dimension dprod (or given)."""
        f, d = U.factor_dim(arr.unit)
        return [m.t(t) * f for t in m.vals(arr._array)], d

    def dot_terms(P, Q, i):
        s = P[0][i] * Q[0][i]
        for k in range(1, len(P)):
            s = s + P[k][i] * Q[k][i]
        return s

    def cross_terms(P, Q, i):
        return [P[1][i] * Q[2][i] - P[2][i] * Q[1][i], P[2][i] * Q[0][i] - P[0][i] * Q[2][i],
                P[0][i] * Q[1][i] - P[1][i] * Q[0][i]]

    def mag2(P, i):
        return dot_terms(P, P, i)

    if law in ("dot-value", "dot-symmetry"):
        d1 = a.dot(b)
        if not m.require(isinstance(d1, Array), "dot returns an Array", key=f"type:{tag}"):
            return
        v1, dim1 = phys(d1)
        if not m.require(dim1 == dprod, "dot carries the product of the operand units", key=f"dot-unit:{tag}",
                         info=str(d1.unit)):
            return
        if law == "dot-value":
            m.check("a.b equals the sum of component products as physical quantities",
                    m.And([m.close(v1[i], dot_terms(A, B, i), scale=_absprod(m, A, B, i)) for i in range(n)]),
                    key=f"dot:{tag}")
        else:
            d2 = b.dot(a)
            v2, dim2 = phys(d2)
            m.require(dim2 == dprod, "b.a unit", key=f"dot-unit:{tag}")
            m.check("a.b = b.a as physical quantities",
                    m.And([m.close(v1[i], v2[i], scale=_absprod(m, A, B, i)) for i in range(n)]), key=f"dot-sym:{tag}")
        return
    c1 = a.cross(b)
    if not m.require(isinstance(c1, Vector) and c1.nvec == 3, "cross returns a 3-Vector", key=f"type:{tag}"):
        return
    C1 = []
    for comp in C.vcomps(c1).values():
        v, d = phys(comp)
        if not m.require(d == dprod, "cross carries the product of the operand units", key=f"cross-unit:{tag}",
                         info=str(comp.unit)):
            return
        C1.append(v)
    if law == "cross-value":
        fs = []
        for i in range(n):
            ex = cross_terms(A, B, i)
            sc = _absprod(m, A, B, i)
            fs += [m.close(C1[k][i], ex[k], scale=sc) for k in range(3)]
        m.check("a x b equals the determinant formula as physical quantities", m.And(fs), key=f"cross:{tag}")
    elif law == "cross-antisymmetry":
        c2 = b.cross(a)
        C2 = [phys(comp)[0] for comp in C.vcomps(c2).values()]
        m.check("a x b = -(b x a)", m.And([m.close(C1[k][i], -C2[k][i], scale=_absprod(m, A, B, i))
                                           for k in range(3) for i in range(n)]), key=f"cross-anti:{tag}")
    elif law == "triple":
        t = a.dot(c1)
        tv, td = phys(t)
        m.require(td == U.dim_mul(da, dprod), "a.(a x b) unit", key=f"triple-unit:{tag}")
        # exact in real arithmetic; tolerance relative to |a|^2 |b|
        m.check("a.(a x b) = 0", m.And([m.close(tv[i], 0, scale=_abs3(m, A, B, i)) for i in range(n)]),
                key=f"triple:{tag}")
    elif law == "lagrange":
        d1 = a.dot(b)
        dv, dd = phys(d1)
        if not m.require(dd == dprod, "dot unit", key=f"dot-unit:{tag}"):
            return
        fs = []
        for i in range(n):
            lhs = C1[0][i] * C1[0][i] + C1[1][i] * C1[1][i] + C1[2][i] * C1[2][i] + dv[i] * dv[i]
            rhs = mag2(A, i) * mag2(B, i)
            fs.append(m.close(lhs, rhs))
        m.check("|a x b|^2 + (a.b)^2 = |a|^2 |b|^2", m.And(fs), key=f"lagrange:{tag}", timeout_ms=60000)


def _absprod(m, A, B, i):
    s = None
    for P in A:
        for Q in B:
            t = m.abs(P[i]) * m.abs(Q[i]) if not m.symbolic else None
            if t is None:
                t = m.abs(P[i] * Q[i])
            s = t if s is None else s + t
    return s


def _abs3(m, A, B, i):
    s = None
    for P in A:
        for P2 in A:
            for Q in B:
                t = m.abs(P[i] * P2[i] * Q[i])
                s = t if s is None else s + t
    return s
