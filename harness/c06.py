"""C06 -- Datagroup members stay row-aligned under insertion, slicing and sorting.

Every row of every member carries its own z3 symbol (provenance), so a result row that
mixes values of two source rows is a structural mismatch; the sort key values are symbolic
and the orderings (ties included) are explored as paths, with the non-decreasing order
proved from the path condition."""
import itertools

import numpy as np

from harness import common as C

PROP = "C06"
FILES = ["src/osyris/core/datagroup.py", "src/osyris/core/array.py", "src/osyris/core/vector.py"]
FUNCTIONS = ["osyris.core.datagroup.Datagroup.__setitem__/__getitem__/sortby/update/pop/__delitem__/shape",
             "osyris.core.array.Array.__getitem__", "osyris.core.vector.Vector.__getitem__"]
ASSUMPTIONS = ["payload values of each member are assumed pairwise distinct (provenance labels; the sort keys are NOT: ties are explored)",
               "the index objects are an enumeration for n <= 3 rows (the solver's share is the sort: all key values, all tie patterns)",
               "an update() whose first items are valid and a later one is mis-shaped keeps the valid ones (each insertion is judged separately)"]
BOUNDS = {"quick": {"rows": "n <= 3", "members": "Array f64 [m], Vector (2 or 3 comps) [cm], Array i64, optionally a 2-D Array (n,2)",
                    "index objects": "all ints in [-n, n), 14 slices incl. steps/negative, all 2^n boolean masks as ndarray and as Array, "
                                     "all index arrays of length <= n+1 over range(n) for n <= 2 and a sample for n = 3, as ndarray/list/Array",
                    "sort": "symbolic keys (float and int), all orderings and ties; index-list sort for all permutations",
                    "insert step": "pre-state: 0..2 members of common length n0 in {(), 1, 2, 3}; value of length n in {(), 1, 2, 3}; set and update"},
          "thorough": {"as": "quick with n <= 4 for sorting"}}
FLOOR = {"quick": 1500, "thorough": 3000}
SHADOW_EVERY = 2
LIMITS = {"quick": {"max_paths": 400, "budget_s": 120}, "thorough": {"max_paths": 3000, "budget_s": 600}}


def _index_objects(n):
    objs = []
    for i in range(-n, n):
        objs.append(("int", i))
    for sl in [(None, None, None), (1, None, None), (None, -1, None), (None, None, 2), (None, None, -1), (1, 3, None),
               (0, 0, None), (-2, None, None), (None, None, -2), (2, 0, -1), (0, n, 1), (5, None, None), (None, 1, None),
               (1, 2, 1)]:
        objs.append(("slice", list(sl)))
    for mask in itertools.product([False, True], repeat=n):
        objs.append(("mask-ndarray", list(mask)))
        objs.append(("mask-Array", list(mask)))
    if n <= 2:
        idxs = [list(p) for k in range(0, n + 2) for p in itertools.product(range(n), repeat=k)]
    else:
        idxs = [list(p) for p in itertools.permutations(range(n))] + [[0, 0], [2, 2, 1], [1, 0, 1, 2], [2], [], [-1, 0]]
    for ix in idxs:
        objs.append(("ints-ndarray", ix))
        objs.append(("ints-Array", ix))
        if ix:
            objs.append(("ints-list", ix))
    return objs


def configs(tier):
    out = []
    for n in (1, 2, 3):
        for nvec in (2, 3):
            for kind, ix in _index_objects(n):
                if nvec == 2 and kind not in ("int", "slice", "mask-Array"):
                    continue
                out.append(dict(kind="index", n=n, nvec=nvec, ikind=kind, ix=ix))
    nmax = 3 if tier == "quick" else 4
    for n in range(1, nmax + 1):
        for keydt in ("float64", "int64"):
            out.append(dict(kind="sort-key", n=n, keydt=keydt, nvec=3))
        for perm in itertools.permutations(range(n)):
            out.append(dict(kind="sort-index", n=n, perm=list(perm)))
    # members that share objects (a Vector component also stored on its own, one Array under two names) and a sort
    # key that is itself a member, given by name / as an integer Array / as an ndarray
    for n in (2, 3):
        for share in ("component", "two-names", "none"):
            for keyform in ("name", "int-array-member", "ndarray"):
                out.append(dict(kind="sort-shared", n=n, share=share, keyform=keyform))
    # an index object reused after its content was changed in place
    out.append(dict(kind="index", n=3, nvec=3, ikind="mask-ndarray", ix=[False, True, True], refill=[True, True, False]))
    out.append(dict(kind="index", n=3, nvec=2, ikind="mask-Array", ix=[True, False, True], refill=[False, True, True]))
    out.append(dict(kind="index", n=3, nvec=3, ikind="ints-ndarray", ix=[2, 0], refill=[1, 1]))
    out.append(dict(kind="sort-index", n=3, perm=[0, 0, 1, 2]))      # other length: must not leave a torn group
    out.append(dict(kind="sort-index", n=3, perm=[2, 0]))
    for n0 in ((), 1, 2, 3):
        for nmem in (0, 1, 2):
            for n in ((), 1, 2, 3):
                for how in ("set-new", "set-replace", "update", "set-vector"):
                    if how == "set-replace" and nmem == 0:
                        continue
                    out.append(dict(kind="insert", n0=list(n0) if n0 == () else n0, nmem=nmem, n=list(n) if n == () else n, how=how))
    # the same insertion step from a state REACHED through removals (del, pop, a failed pop, clear + rebuild): the shape the
    # group holds its members to must be the one of the members it has now
    for prep in ("del", "pop", "failed-pop", "clear-rebuild"):
        for nmem in (1, 2):
            for n0, n in ((2, 3), (3, 3), (3, 2)):
                for how in ("set-new", "update", "set-vector"):
                    out.append(dict(kind="insert", n0=n0, nmem=nmem, n=n, how=how, prep=prep))
    # update() with two items at once (each insertion is judged against the state at that moment), also on an empty group
    for n0 in (1, 2):
        for nmem in (0, 1):
            for n in (1, 2, 3):
                for n2 in (1, 2, 3):
                    for kinds in ("AA", "AV", "VA"):
                        out.append(dict(kind="update2", n0=n0, nmem=nmem, n=n, n2=n2, kinds=kinds))
    return out


def _mk_group(m, n, nvec, with2d=False):
    from osyris import Array, Vector, Datagroup
    dg = Datagroup()
    dg["a"] = Array(m.array("a", (n,), "float64"), unit="m")
    dg["v"] = Vector(*[m.array("v" + c, (n,), "float64") for c in "xyz"[:nvec]], unit="cm")
    dg["i"] = Array(m.array("i", (n,), "int64"), unit="dimensionless")
    m.distinct(dg["a"]._array)
    m.distinct(dg["i"]._array)
    m.distinct(*[c._array for c in C.vcomps(dg["v"]).values()])
    return dg


def _rows(m, member):
    """list (per row) of tuples of terms of a member (Array -> 1 term, Vector -> nvec terms)."""
    from osyris import Array
    if isinstance(member, Array):
        return [tuple([t]) for t in m.vals(member._array)] if member.shape else [tuple(m.vals(member._array))]
    cols = [m.vals(c._array) for c in C.vcomps(member).values()]
    return [tuple(col[r] for col in cols) for r in range(len(cols[0]))]


def _same_row(m, r1, r2):
    return C.same_terms(m, list(r1), list(r2))


def body(m, cfg):
    from osyris import Array, Vector, Datagroup
    kind = cfg["kind"]
    if kind == "index":
        n, nvec, ikind, ix = cfg["n"], cfg["nvec"], cfg["ikind"], cfg["ix"]
        tag = f"{ikind}:n{n}"
        dg = _mk_group(m, n, nvec)
        src = {k: _rows(m, dg[k]) for k in dg.keys()}
        units = {k: str(dg[k].unit) for k in dg.keys()}
        if ikind == "int":
            key = ix
        elif ikind == "slice":
            key = slice(*ix)
        elif ikind == "mask-ndarray":
            key = np.array(ix, dtype=bool)
        elif ikind == "mask-Array":
            key = Array(np.array(ix, dtype=bool))
        elif ikind == "ints-ndarray":
            key = np.array(ix, dtype=int)
        elif ikind == "ints-Array":
            key = Array(np.array(ix, dtype=int))
        else:
            key = list(ix)
        if cfg.get("refill"):
            # the same index OBJECT used before with other content (a mask / index buffer refilled in place between two uses)
            tag += ":refilled"
            buf = key.values if isinstance(key, Array) else key
            now = buf.copy()
            buf[...] = np.array(cfg["refill"], dtype=buf.dtype)
            dg[key]
            buf[...] = now
        npkey = key.values if isinstance(key, Array) else key
        want = np.arange(n)[npkey]            # numpy's own meaning of the index object
        try:
            r = dg[key]
        except Exception as e:
            m.fail(f"indexing raises {type(e).__name__}: {e}", key=f"index-raises:{tag}")
            return
        if not m.require(isinstance(r, Datagroup) and list(r.keys()) == list(dg.keys()), "result has the same members",
                         key=f"members:{tag}"):
            return
        want_rows = [int(w) for w in np.atleast_1d(want)]
        for k in dg.keys():
            got = _rows(m, r[k])
            ok = len(got) == len(want_rows) and all(_same_row(m, g, src[k][w]) for g, w in zip(got, want_rows))
            m.require(ok, f"member {k} carries the selected rows", key=f"rows:{tag}:{k}")
            m.require(tuple(r[k].shape) == tuple(np.shape(want)), "member shape", key=f"shape:{tag}:{k}")
            m.require(str(r[k].unit) == units[k], "unit preserved", key=f"unit:{tag}:{k}")
            m.require(r[k].name == k, "name preserved", key=f"name:{tag}:{k}")
            m.require(type(r[k]) is type(dg[k]), "member type preserved", key=f"type:{tag}:{k}")
        for k in dg.keys():
            m.require(all(_same_row(m, p, q) for p, q in zip(_rows(m, dg[k]), src[k])) and str(dg[k].unit) == units[k],
                      "source group unchanged", key=f"source-changed:{tag}")
        return
    if kind == "sort-key":
        n, keydt = cfg["n"], cfg["keydt"]
        tag = f"sortby-key:{keydt}:n{n}"
        dg = _mk_group(m, n, cfg["nvec"])
        dg["k"] = Array(m.array("k", (n,), keydt), unit="s")      # keys may tie: no distinctness assumed
        src = {k: _rows(m, dg[k]) for k in dg.keys()}
        units = {k: str(dg[k].unit) for k in dg.keys()}
        dg.sortby("k")
        kv = m.vals(dg["k"]._array)
        m.check("key column is non-decreasing", m.And([m.le(kv[i], kv[i + 1]) for i in range(n - 1)]), key=f"order:{tag}")
        # permutation from the provenance of member 'a' (distinct symbols)
        perm = []
        for row in _rows(m, dg["a"]):
            hit = [j for j, s in enumerate(src["a"]) if _same_row(m, row, s)]
            perm.append(hit[0] if hit else None)
        if not m.require(None not in perm and sorted(perm) == list(range(n)), "rows of the result are a permutation of the source rows",
                         key=f"perm:{tag}"):
            return
        for k in dg.keys():
            got = _rows(m, dg[k])
            m.require(len(got) == n and all(_same_row(m, g, src[k][p]) for g, p in zip(got, perm)),
                      f"member {k} underwent the same permutation", key=f"aligned:{tag}:{k}")
            m.require(str(dg[k].unit) == units[k] and dg[k].name == k, "unit and name preserved", key=f"unit:{tag}:{k}")
        return
    if kind == "sort-shared":
        n, share, keyform = cfg["n"], cfg["share"], cfg["keyform"]
        tag = f"sortby-shared:{share}:{keyform}"
        dg = _mk_group(m, n, 3)
        dg["k"] = Array(m.array("k", (n,), "float64"), unit="s")
        if share == "component":
            dg["vx_alone"] = dg["v"].x
        elif share == "two-names":
            dg["a_again"] = dg["a"]
        src = {k: _rows(m, dg[k]) for k in dg.keys()}
        names_before = list(dg.keys())
        if keyform == "name":
            key = "k"
            order_src = None
        else:
            # an explicit permutation (reverse), as an integer Array that is itself a member, or as a plain ndarray
            perm = list(range(n))[::-1]
            if keyform == "int-array-member":
                dg["order"] = Array(np.array(perm, dtype=int))
                src["order"] = _rows(m, dg["order"])
                names_before = list(dg.keys())
                key = dg["order"]
            else:
                key = np.array(perm, dtype=int)
        dg.sortby(key)
        if keyform == "name":
            kv = m.vals(dg["k"]._array)
            m.check("key column is non-decreasing", m.And([m.le(kv[i], kv[i + 1]) for i in range(n - 1)]), key=f"order:{tag}")
        # one permutation for every member: read it from member 'a' (distinct provenance symbols)
        p_ = []
        for row in _rows(m, dg["a"]):
            hit = [j for j, s_ in enumerate(src["a"]) if _same_row(m, row, s_)]
            p_.append(hit[0] if hit else None)
        if not m.require(None not in p_ and sorted(p_) == list(range(n)), "rows of the result are a permutation of the source rows", key=f"perm:{tag}"):
            return
        if keyform != "name":
            m.require(p_ == perm, "the index list given is the permutation applied", key=f"perm:{tag}")
        m.require(list(dg.keys()) == names_before, "members kept", key=f"members:{tag}")
        for k in dg.keys():
            got = _rows(m, dg[k])
            m.require(len(got) == n and all(_same_row(m, g, src[k][q]) for g, q in zip(got, p_)),
                      f"member {k} underwent the same permutation (also when it shares its data with another member)", key=f"aligned:{tag}:{k}")
        return
    if kind == "sort-index":
        n, perm = cfg["n"], cfg["perm"]
        tag = f"sortby-index:n{n}:{'perm' if sorted(perm) == list(range(n)) else 'other-length'}"
        dg = _mk_group(m, n, 3)
        src = {k: _rows(m, dg[k]) for k in dg.keys()}
        try:
            dg.sortby(list(perm))
        except ValueError:
            shapes = {tuple(dg[k].shape) for k in dg.keys()}
            m.require(len(shapes) == 1, "a rejected sort leaves the members aligned", key=f"torn:{tag}")
            return
        shapes = {tuple(dg[k].shape) for k in dg.keys()}
        m.require(len(shapes) == 1, "members share one shape", key=f"torn:{tag}")
        for k in dg.keys():
            got = _rows(m, dg[k])
            m.require(len(got) == len(perm) and all(_same_row(m, g, src[k][p]) for g, p in zip(got, perm)),
                      f"member {k} follows the index list", key=f"aligned:{tag}:{k}")
        return
    if kind == "update2":
        n0, nmem, n, n2, kinds = cfg["n0"], cfg["nmem"], cfg["n"], cfg["n2"], cfg["kinds"]
        tag = f"update2:mem{nmem}:{kinds}:{'aligned' if (n == n2 and (nmem == 0 or n == n0)) else 'misaligned'}"
        dg = Datagroup()
        if nmem:
            dg["p"] = Array(m.array("p", (n0,), "float64"), unit="m")

        def mk(k, name, length):
            if k == "A":
                return Array(m.array(name, (length,), "float64"), unit="s")
            return Vector(*[m.array(name + c, (length,), "float64") for c in "xy"], unit="cm")
        v1, v2 = mk(kinds[0], "w", n), mk(kinds[1], "u", n2)
        try:
            dg.update({"w": v1, "u": v2})
            raised = False
        except ValueError:
            raised = True
        ok1 = (nmem == 0) or n == n0
        ok2 = ok1 and n2 == n
        m.require(raised == (not (ok1 and ok2)), "update() accepts the items iff each keeps the members aligned", key=f"update2-verdict:{tag}")
        shapes = {tuple(dg[k].shape) for k in dg.keys()}
        m.require(len(shapes) <= 1, "after update() all members share one shape", key=f"invariant:{tag}",
                  info={k: list(dg[k].shape) for k in dg.keys()})
        return
    if kind == "insert":
        n0 = tuple(cfg["n0"]) if isinstance(cfg["n0"], list) else (cfg["n0"],)
        nn = tuple(cfg["n"]) if isinstance(cfg["n"], list) else (cfg["n"],)
        nmem, how = cfg["nmem"], cfg["how"]
        tag = f"{how}:mem{nmem}:{'same' if n0 == nn else 'other'}:{'scalar-group' if n0 == () else 'rows'}"
        dg = Datagroup()
        names = ["p", "q"][:nmem]
        prep = cfg.get("prep")
        if prep:
            tag += ":after-" + prep
        if prep == "clear-rebuild":
            dg["old"] = Array(m.array("old", (n0[0] + 1,), "float64"), unit="m")
            dg.clear()
        for nm in names:
            dg[nm] = Array(m.array(nm, n0, "float64"), unit="m")
        if prep in ("del", "pop"):
            extra = ["e1", "e2"]
            for nm in extra:
                dg[nm] = Array(m.array(nm, n0, "float64"), unit="m")
            # remove the extras again, and (for one member) also remove and re-insert down to exactly the members wanted
            for nm in extra:
                if prep == "del":
                    del dg[nm]
                else:
                    dg.pop(nm)
        elif prep == "failed-pop":
            try:
                dg.pop("missing")
            except KeyError:
                pass
        before = {k: (id(dg[k]), m.vals(dg[k]._array)) for k in dg.keys()}
        if how == "set-vector":
            val = Vector(*[m.array("w" + c, nn, "float64") for c in "xy"], unit="s")
        else:
            val = Array(m.array("w", nn, "float64"), unit="s")
        key = names[0] if how == "set-replace" else "w"
        breaks = nmem > 0 and n0 != () and n0 != nn
        try:
            if how == "update":
                dg.update({key: val})
            else:
                dg[key] = val
            raised = False
        except ValueError:
            raised = True
        if breaks:
            if not m.require(raised, "mis-shaped insertion is rejected", key=f"accepted-misshaped:{tag}"):
                return
            m.require(list(dg.keys()) == names and all(id(dg[k]) == before[k][0] and C.same_terms(m, m.vals(dg[k]._array), before[k][1])
                                                       for k in names), "rejected insertion leaves the group unchanged",
                      key=f"changed-on-reject:{tag}")
        else:
            if not m.require(not raised, "aligned insertion is accepted", key=f"rejected-aligned:{tag}"):
                return
            m.require(dg[key] is val and val.name == key, "stored under its key and renamed", key=f"stored:{tag}")
            if n0 != ():
                shapes = {tuple(dg[k].shape) for k in dg.keys()}
                m.require(len(shapes) == 1, "all members share one shape", key=f"invariant:{tag}")
