"""C12 -- a level-limited load returns the tree truncated at that level, without holes."""
import itertools
import os

import numpy as np

from harness import common as C
from harness import loader_common as LC
from harness import c01 as B
from oracles import units as U

PROP = "C12"
FILES = ["src/osyris/io/loader.py", "src/osyris/io/utils.py", "src/osyris/io/amr.py"]
FUNCTIONS = B.FUNCTIONS + ["osyris.io.utils.find_max_amr_level", "osyris.io.amr.AmrReader.read_variables (leaf rule with lmax)",
                           "osyris.io.reader.Reader.make_conditions"]
ASSUMPTIONS = B.ASSUMPTIONS + ["level predicates are the enumerated forms l<=k, l<k, a<l<b, l==k, l>=k, l!=k, l==a or l==b (Python callables applied by osyris to "
                               "the level array); a value threshold combined with them has a symbolic bound"]
BOUNDS = {"quick": {"outputs": "1-3 D, 1-2 CPUs, trees refined down to level 3 (one branch), levelmax 3", "predicates": "7 forms (incl. gaps) x k in 1..3",
                    "combined": "level predicate AND density > symbolic threshold", "symbolic": "as C01"},
          "thorough": {"as": "quick with levelmax 4 and nboundary 1"}}
FLOOR = {"quick": 2000, "thorough": 6000}
SHADOW_EVERY = 2
LIMITS = {"quick": {"max_paths": 400, "budget_s": 300}, "thorough": {"max_paths": 4000, "budget_s": 1800}}

PREDS = {"le": lambda k: (lambda l: l <= k), "lt": lambda k: (lambda l: l < k), "eq": lambda k: (lambda l: l == k),
         "ge": lambda k: (lambda l: l >= k), "ne": lambda k: (lambda l: l != k)}


def pred_py(form, k, k2=None):
    if form == "between":
        return lambda l: (l > k) & (l < k2)
    if form == "either":
        return lambda l: (l == k) | (l == k2)
    return PREDS[form](k)


def pred_ok(form, k, k2=None):
    return {"le": lambda l: l <= k, "lt": lambda l: l < k, "eq": lambda l: l == k, "ge": lambda l: l >= k,
            "between": lambda l: k < l < k2, "ne": lambda l: l != k, "either": lambda l: l in (k, k2)}[form]


def configs(tier):
    out = []
    Lmax = 3 if tier == "quick" else 4
    for ndim in (1, 2, 3):
        for ncpu in (1, 2):
            base = dict(ndim=ndim, ncpu=ncpu, shape="deep", nboundary=(0 if tier == "quick" else 1), nxyz=([1, 1, 1] if tier == "quick" else [3, 1, 1]),
                        levelmax=Lmax, hydro=("two" if ndim == 1 else "hd"), grav=False, rt=False, units=list(B.UNITSETS[ndim % 2]), nout=1)
            for form in ("le", "lt", "eq", "ge"):
                for k in range(1, Lmax + 1):
                    if form == "lt" and k == 1:
                        continue            # accepts no level at all
                    out.append(dict(base, form=form, k=k, k2=None, thr=False, load="all:zero"))
            # predicates with gaps: the tree is still truncated at the highest accepted level
            for k in range(1, Lmax):
                out.append(dict(base, form="ne", k=k, k2=None, thr=False, load="all:zero"))
            out.append(dict(base, form="either", k=1, k2=Lmax, thr=False, load="all:zero"))
            out.append(dict(base, form="between", k=0, k2=3, thr=False, load="all:zero"))
            out.append(dict(base, form="between", k=1, k2=Lmax + 1, thr=False, load="all:zero"))
            if ndim <= 2:
                out.append(dict(base, form="le", k=2, k2=None, thr=True, load="all:zero", _split=4))
            if ncpu == 2:
                out.append(dict(base, form="le", k=2, k2=None, thr=False, load="file:1"))
                out.append(dict(base, form="le", k=1, k2=None, thr=False, load="all:positive"))
    return out


def body(m, cfg):
    if m.symbolic:
        return _body(m, cfg)
    try:
        _body(m, cfg)
    except Exception as e:
        m.failed.append("*")
        m.notes = f"{type(e).__name__}: {e}"
        return
    if m.failed:
        m.notes = list(m.failed)
        m.failed.append("*")


def _body(m, cfg):
    import osyris
    out = B.make_output(m, cfg)
    try:
        mode, arg = cfg["load"].split(":")
        out.build(ghosts=("symbolic" if mode == "file" else arg))
        saved = LC.install_shims(out) if m.symbolic else None
        f = pred_py(cfg["form"], cfg["k"], cfg["k2"])
        ok = pred_ok(cfg["form"], cfg["k"], cfg["k2"])
        sel = {"level": f}
        thr = None
        if cfg["thr"]:
            thr = m.real("threshold")
            thr_q = thr * out.cfg["unit_d"]
            sel["density"] = lambda d: d > osyris.Array(thr_q, unit="g/cm**3")
        try:
            with LC.quiet():
                ds = osyris.RamsesDataset(1, path=out.root)
                kw = dict(select={"mesh": sel})
                if mode == "file":
                    kw["cpu_list"] = [int(arg) + 1]
                ds.load(**kw)
        finally:
            if saved is not None:
                LC.remove_shims(saved)
        Lfile = cfg["levelmax"]
        accepted = [l for l in range(1, Lfile + 1) if ok(l)]
        L = max(accepted)
        tag = f"{cfg['ndim']}d:{cfg['form']}{cfg['k']}" + ("+thr" if cfg["thr"] else "")
        m.require(int(ds.meta["lmax"]) == L, "meta['lmax'] is the highest level the predicate accepts", key=f"lmax:{tag}",
                  info={"lmax": int(ds.meta["lmax"]), "expected": L})
        if m.symbolic:
            deeper = [w for f_ in out.files.values() for w in f_.reads if any(f"L{l}D" in w for l in range(L, Lfile))]
            m.require(not deeper, "no record of a level above L is read", key=f"reads-deeper:{tag}", info=deeper[:3])
        owners = None if mode == "all" else {int(arg)}
        row_filter = None
        if thr is not None:
            # rows with density above the (symbolic) threshold: decided on this path
            def row_filter(o, ind):
                return m.decide(m.gt(m.t(o.vals["hydro"]["density"][ind]), m.t(thr)))
        B.check_mesh(m, cfg, out, ds, owners=owners, lmax=L, tag=tag, level_ok=ok, row_filter=row_filter, variables=None)
        # tiling: when every level up to L is accepted the cells cover the domain exactly once
        if accepted == list(range(1, L + 1)) and thr is None and mode == "all" and "mesh" in ds and "dx" in ds["mesh"]:
            fdx = U.factor_dim(ds["mesh"]["dx"].unit)[0]
            vol = sum((m.t(t) * fdx) ** cfg["ndim"] for t in m.vals(ds["mesh"]["dx"]._array))
            box = (out.cfg["boxlen"] * out.cfg["unit_l"]) ** cfg["ndim"]
            m.check("the returned cells tile the domain: their volumes add up to the box volume", m.close(vol, box), key=f"tiling:{tag}")
    finally:
        out.cleanup()
