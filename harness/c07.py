"""C07 -- comparisons and logical operators compare physical quantities.

The real comparison dunders run on symbolic arrays; each element comparison forks, so every
verdict pattern is a path; on each path the concrete boolean result must be entailed by the
path condition read physically (independent unit table)."""
import itertools

import numpy as np

from harness import common as C

PROP = "C07"
FILES = ["src/osyris/core/array.py", "src/osyris/core/base.py"]
FUNCTIONS = ["osyris.core.array.Array.__lt__/__le__/__gt__/__ge__/__eq__/__ne__",
             "osyris.core.array.Array.__and__/__or__/__xor__/__invert__", "osyris.core.array._binary_op",
             "osyris.core.array.Array.to", "osyris.core.array.Array._wrap_numpy"]
ASSUMPTIONS = ["a dead band of relative width 1e-9 around physical equality is left free (rounding of the conversion factor); "
               "for identical units == and != are required to be exact"]
BOUNDS = {"quick": {"elements": "all symbolic", "shapes": "0-d, (2,), (2,)+(), (2,1)+(1,2)",
                    "dtype_pairs": "(f64,f64),(f32,f32),(i64,i64),(i32,f64)", "unit_pairs": "2 per family + incompatible",
                    "operators": "< <= > >= == != & | ^ ~", "rhs kinds": "Array, int, float, ndarray, Quantity",
                    "histories": "4 earlier operations (comparison, reflected comparison, to(), a+b) x 6 in-place changes of an operand "
                                 "(+=, *=, element assignment, assignment through a view, lhs +=, unit relabel) x 3 unit pairs, then the comparison"},
          "thorough": {"elements": "all symbolic", "shapes": "as quick + (2,2), (3,)", "dtype_pairs": "all 16",
                       "unit_pairs": "4 per family + incompatible", "operators": "as quick", "rhs kinds": "as quick"}}
FLOOR = {"quick": 1500, "thorough": 8000}
SHADOW_EVERY = 2
LIMITS = {"quick": {"max_paths": 600, "budget_s": 120}, "thorough": {"max_paths": 3000, "budget_s": 600}}

CMP = {"lt": lambda a, b: a < b, "le": lambda a, b: a <= b, "gt": lambda a, b: a > b,
       "ge": lambda a, b: a >= b, "eq": lambda a, b: a == b, "ne": lambda a, b: a != b}
LOG = ["and", "or", "xor", "not"]
DT = ["float64", "float32", "int64", "int32"]


def configs(tier):
    out = []
    ups = C.unit_pairs(tier)
    shapes = [((), ()), ((2,), (2,)), ((2,), ()), ((2, 1), (1, 2))]
    dtp = [("float64", "float64"), ("float32", "float32"), ("int64", "int64"), ("int32", "float64")]
    if tier != "quick":
        shapes += [((2, 2), (2, 2)), ((3,), (3,))]
        dtp = list(itertools.product(DT, DT))
    for op in CMP:
        for ua, ub in ups:
            out.append(dict(op=op, rhs="Array", dta="float64", dtb="float64", sa=[2], sb=[2], ua=ua, ub=ub))
        sel = [("m", "cm"), ("g", "g"), ("m", "s")] if tier == "quick" else ups[::4]
        for (dta, dtb), (sa, sb), (ua, ub) in itertools.product(dtp, shapes, sel):
            out.append(dict(op=op, rhs="Array", dta=dta, dtb=dtb, sa=list(sa), sb=list(sb), ua=ua, ub=ub))
        for rhs in ("int", "float", "ndarray", "Quantity"):
            for dta in ["float64", "int64"] + (["float32", "int32"] if tier != "quick" else []):
                for ua, ub in [("m", "cm"), ("dimensionless", "dimensionless"), ("g", "s"), ("cm", "pc"), ("km/m", "dimensionless"),
                               ("percent", "dimensionless")]:
                    if rhs != "Quantity" and (ua, ub) not in (("m", "cm"), ("dimensionless", "dimensionless"), ("km/m", "dimensionless"),
                                                              ("percent", "dimensionless")):
                        continue
                    out.append(dict(op=op, rhs=rhs, dta=dta, dtb=("int64" if rhs == "int" else "float64"), sa=[2],
                                    sb=([] if rhs in ("int", "float") else [2]), ua=ua,
                                    ub=(ub if rhs == "Quantity" else "dimensionless")))
    # the same comparison twice with the same right operand OBJECT (an ndarray / a Quantity holding an ndarray): the operand
    # is only converted, never altered, so the second answer is the first
    for op in CMP:
        out.append(dict(op=op, rhs="Quantity", dta="float64", dtb="float64", sa=[2], sb=[2], ua="m", ub="cm", pre="cmp", mut="none"))
        out.append(dict(op=op, rhs="ndarray", dta="float64", dtb="float64", sa=[2], sb=[2], ua="percent", ub="dimensionless", pre="cmp", mut="none"))
    # boolean operands (True, a boolean ndarray, a mask Array) are dimensionless numbers: against a dimensional Array they
    # must be refused like any other dimensionless operand, against a dimensionless one compared as 0 / 1
    for op in CMP:
        for rhs in ("bool", "bool-ndarray", "mask"):
            for ua in ("m", "dimensionless", "percent"):
                out.append(dict(op=op, rhs=rhs, dta="float64", dtb="bool", sa=[2], sb=([] if rhs == "bool" else [2]), ua=ua, ub="dimensionless"))
        out.append(dict(op=op, rhs="Array", dta="bool", dtb="float64", sa=[2], sb=[2], ua="dimensionless", ub="m", lhs_mask=True))
    # histories: an earlier operation on the same operands, then an in-place change of one of them, then the comparison
    # (hidden state in the operands -- e.g. a remembered conversion -- must not be observable)
    for op in (("lt", "eq", "ge") if tier == "quick" else tuple(CMP)):
        for pre in ("cmp", "rcmp", "to", "add"):
            for mut in ("b_iadd", "b_imul", "b_set", "a_iadd", "b_unit", "b_slice_set"):
                for ua, ub in [("m", "cm"), ("cm", "cm"), ("km/m", "dimensionless")]:
                    if mut == "b_unit" and ub == "dimensionless":
                        continue
                    out.append(dict(op=op, rhs="Array", dta="float64", dtb="float64", sa=[2], sb=[2], ua=ua, ub=ub, pre=pre, mut=mut))
    for op in LOG:
        for sa, sb in ([((2,), (2,)), ((), ()), ((2,), ())] + ([((2, 1), (1, 2)), ((3,), (3,))] if tier != "quick" else [])):
            for rhs in ("Array", "ndarray", "bool"):
                if op == "not" and rhs != "Array":
                    continue
                out.append(dict(op=op, rhs=rhs, sa=list(sa), sb=list(sb)))
    return out


def _verdict_ok(m, op, claimed, x, y, exact, tol=None):
    """Formula: the claimed boolean is not clearly wrong for physical values x, y.
    tol: fixed relative dead band (units whose published values differ between sources); default: the
    tolerance placeholder (1e-9 in proofs, wider when a replayable counterexample is searched)."""
    band = m.tol_term() if tol is None else (tol if not m.symbolic else __import__("symx.core", fromlist=["x"]).realval(tol))
    d = band * (m.abs(x) + m.abs(y)) if not exact else 0
    lt_clear, gt_clear = (x < y - d), (x > y + d)
    if exact:
        eq_clear, ne_clear = (x == y), m.Not(x == y)
    else:
        eq_clear, ne_clear = None, m.Or(lt_clear, gt_clear)
    if exact:
        clear_true = {"lt": lt_clear, "le": m.Not(gt_clear), "gt": gt_clear, "ge": m.Not(lt_clear),
                      "eq": eq_clear, "ne": ne_clear}[op]
        return m.Iff(claimed, clear_true)
    clear_true = {"lt": lt_clear, "le": lt_clear, "gt": gt_clear, "ge": gt_clear, "eq": None, "ne": ne_clear}[op]
    clear_false = {"lt": gt_clear, "le": gt_clear, "gt": lt_clear, "ge": lt_clear, "eq": ne_clear, "ne": None}[op]
    if claimed:
        return m.Not(clear_false) if clear_false is not None else True
    return m.Not(clear_true) if clear_true is not None else True


def body(m, cfg):
    import osyris
    from osyris import Array
    from pint.errors import DimensionalityError
    op = cfg["op"]
    sa, sb = tuple(cfg["sa"]), tuple(cfg["sb"])
    if op in LOG:
        return _logical(m, cfg, op, sa, sb)
    dta, dtb, rhs = cfg["dta"], cfg["dtb"], cfg["rhs"]
    m.dtype_tol(dta, dtb)
    tag = f"{op}:{C.DT_SHORT.get(dta, dta)}:{rhs}:{C.DT_SHORT.get(dtb, dtb)}"
    if cfg.get("lhs_mask"):
        a = Array(np.array([True, False]))            # a mask on the left, a dimensional Array on the right
    else:
        a = Array(m.array("a", sa, dta), unit=cfg["ua"])
    fa, da = C.fd(cfg["ua"])
    fb, db = C.fd(cfg["ub"])
    av = m.vals(a._array)
    if rhs == "Array":
        b = Array(m.array("b", sb, dtb), unit=cfg["ub"])
        bv = m.vals(b._array)
    elif rhs == "bool":
        b = True
        bv = [m.t(1.0)]
    elif rhs == "bool-ndarray":
        b = np.array([True, False])
        bv = [m.t(1.0), m.t(0.0)]
    elif rhs == "mask":
        b = Array(np.array([True, False]))
        bv = [m.t(1.0), m.t(0.0)]
    elif rhs in ("int", "float"):
        b = m.number("b_0", dtb)
        bv = [m.t(b)]
    elif rhs == "ndarray":
        b = m.array("b", sb, dtb)
        bv = m.vals(b)
    else:
        mag = m.array("b", sb, dtb)
        b = osyris.units._ureg.Quantity(mag, cfg["ub"])
        bv = m.vals(mag)
    if cfg.get("pre"):
        pre, mut = cfg["pre"], cfg["mut"]
        tag += f":after:{pre}:{mut}"
        try:
            {"cmp": lambda: CMP[op](a, b), "rcmp": lambda: CMP[op](b, a), "to": lambda: b.to(a.unit), "add": lambda: a + b}[pre]()
        except DimensionalityError:
            pass
        if mut == "b_iadd":
            b += Array(m.array("d", sb, dtb), unit=cfg["ub"])
        elif mut == "b_imul":
            b *= 2.0
        elif mut == "b_set":
            b.values[0] = m.real("v")
        elif mut == "b_slice_set":
            b[1:].values[0] = m.real("v")          # through a view
        elif mut == "a_iadd":
            a += Array(m.array("d", sa, dta), unit=cfg["ua"])
        elif mut == "b_unit":
            nb = {"cm": "m", "m": "km"}[cfg["ub"]]
            b.unit = osyris.units(nb)
            fb, db = C.fd(nb)
            cfg = dict(cfg, ub=nb)
        if rhs == "Array":
            av, bv = m.vals(a._array), m.vals(b._array)
    snap_a = C.snapshot(m, a)
    ia, ib, bs = C.bcast_index(sa, sb)
    try:
        r = CMP[op](a, b)
    except DimensionalityError:
        m.require(da != db, "DimensionalityError only for incompatible dimensions", key=f"unexpected-raise:{tag}")
        return
    if da != db:
        m.fail("comparing incompatible dimensions returned an answer", key=f"no-raise:{tag}")
        return
    ok = isinstance(r, Array)
    m.require(ok, "result is an Array", key=f"type:{tag}")
    if not ok:
        return
    m.require(tuple(r.shape) == bs, "result has the broadcast shape", key=f"shape:{tag}")
    m.require(np.dtype(r.dtype) == np.dtype(bool), "result is boolean", key=f"dtype:{tag}")
    m.require(C.unit_dim_ok(r.unit, (0, 0, 0, 0, 0)) and "dimensionless" in str(r.unit), "result is dimensionless",
              key=f"unit:{tag}")
    rv = [bool(v) for v in np.asarray(r._array).ravel().tolist()]
    if len(rv) != len(ia):
        return
    exact = (cfg["ua"] == cfg["ub"])
    tolu = C.tol_for(cfg["ua"], cfg["ub"])
    fs = []
    for claimed, i, j in zip(rv, ia, ib):
        x, y = m.t(av[i]) * fa, m.t(bv[j]) * fb
        fs.append(_verdict_ok(m, op, claimed, x, y, exact, tol=tolu))
    m.check("verdicts agree with the physical comparison", m.And(fs), key=f"verdict:{tag}")
    m.require(C.unchanged(m, a, snap_a), "operand unchanged", key=f"operands-changed:{tag}")
    if rhs in ("ndarray", "Quantity"):
        now = m.vals(b if rhs == "ndarray" else b.magnitude)
        m.check("the right operand (the caller's ndarray / Quantity) is not altered", m.And([m.close(x, y, exact=True) for x, y in zip(now, bv)]),
                key=f"rhs-changed:{tag}")


def _logical(m, cfg, op, sa, sb):
    from osyris import Array
    rhs = cfg["rhs"]
    tag = f"{op}:{rhs}"
    x = Array(m.array("x", sa, "float64"))
    pa = x > 0                                   # every truth pattern is a path
    pav = [bool(v) for v in np.asarray(pa._array).ravel().tolist()]
    if op == "not":
        r = ~pa
        ex = [not v for v in pav]
        bs = sa
    else:
        y = m.array("y", sb, "float64")
        if rhs == "Array":
            pb = Array(y) > 0
            pbv = [bool(v) for v in np.asarray(pb._array).ravel().tolist()]
        elif rhs == "ndarray":
            pb = np.asarray((Array(y) > 0)._array)
            pbv = [bool(v) for v in pb.ravel().tolist()]
        else:
            if sb != ():
                raise_cut(m)
            pb = bool((Array(y) > 0).values)
            pbv = [pb]
        ia, ib, bs = C.bcast_index(sa, sb)
        r = {"and": lambda: pa & pb, "or": lambda: pa | pb, "xor": lambda: pa ^ pb}[op]()
        f = {"and": lambda p, q: p and q, "or": lambda p, q: p or q, "xor": lambda p, q: p != q}[op]
        ex = [f(pav[i], pbv[j]) for i, j in zip(ia, ib)]
    ok = isinstance(r, Array)
    m.require(ok, "result is an Array", key=f"type:{tag}")
    if not ok:
        return
    m.require(tuple(r.shape) == tuple(bs), "shape", key=f"shape:{tag}")
    m.require(np.dtype(r.dtype) == np.dtype(bool), "result is boolean", key=f"dtype:{tag}")
    got = [bool(v) for v in np.asarray(r._array).ravel().tolist()]
    m.require(got == ex, "agrees with the truth table", key=f"truth:{tag}")
    m.require("dimensionless" in str(r.unit), "dimensionless", key=f"unit:{tag}")


def raise_cut(m):
    from symx.core import Abort
    raise Abort("cut: bool operand only for 0-d")
