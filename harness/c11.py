"""C11 -- thick maps reduce the sampled column and scale units consistently.

Same decomposition as harness/c03.py (wiring with a recorder in place of the kernel, kernel
called directly, concrete layouts), with a symbolic slab thickness dz: slab pre-selection
soundness, number and position of the depth samples, reduction along the depth, scaling of
sum/nansum by the depth step and its unit."""
from harness import c03 as B

PROP = "C11"
FILES = ["src/osyris/plot/map.py", "src/osyris/plot/utils.py"]
FUNCTIONS = B.FUNCTIONS
ASSUMPTIONS = B.ASSUMPTIONS + ["dz symbolic, between one pixel and 3 window sizes (two configurations: dz <= window, dz >= window)",
                               "the integer number of depth samples is whatever osyris computed on the path; the rounding condition "
                               "dz/pixel in [nz-1/2, nz+1/2] is proved for the symbolic dz (ties free)"]
BOUNDS = {"quick": {"wiring": "1-2 symbolic cells, symbolic dz, grids 1x1..2x2, directions x y z zyx, 8 reductions, resolution dict with / without z (2, 3)",
                    "kernel": "1-2 symbolic cells, 2-3 depth samples, grids up to 2x1x2", "layout": "2 concrete meshes x 2 origins x 3 reductions, dz = 0.8"},
          "thorough": {"as": "quick plus windows 0.37 / au on all grids and the selection proof on two-cell configurations"}}
FLOOR = {"quick": 1500, "thorough": 4000}
SHADOW_EVERY = B.SHADOW_EVERY
LIMITS = B.LIMITS
TOL = B.TOL
STUBS = B.STUBS
EXTRA_STUBS = B.EXTRA_STUBS


def configs(tier):
    return B.configs(tier, thick=True)


body = B.body
