"""C05 -- 2-D histogram bins every point exactly once, independent of thread schedule.

(1) the real binning kernel (hist2d.py_func, int() = truncation as in numba) on symbolic
points/limits: the index computation forks over the bins, and on every path the bin each
point landed in must be the one the path condition places it in;
(2) the real histogram2d(..., plot=False) wrapper: automatic/explicit limits, sum/mean,
default counting layer, mask, bin centres, log axes (log10/pow10 uninterpreted);
(3) two-iteration interference analysis of the kernel's prange loop (symx.interfere);
a conflict is replayed by running the real compiled kernel with all threads on many points
falling into few bins and comparing with the exact counts."""
import itertools
import os

import numpy as np

from harness import common as C

PROP = "C05"
FILES = ["src/osyris/plot/utils.py", "src/osyris/plot/histogram2d.py", "src/osyris/core/tools.py"]
FUNCTIONS = ["osyris.plot.utils.hist2d (py_func; compiled kernel in replays)", "osyris.plot.histogram2d.histogram2d",
             "osyris.plot.histogram2d._parse_limit", "osyris.core.tools.finmin/finmax/to_bin_centers/get_finite_inds"]
ASSUMPTIONS = ["points lying exactly on a bin edge or on a range limit (within rounding) may go to either side",
               "NaN/inf coordinates are outside the claim (reals); float non-associativity of per-bin sums is outside",
               "log axes: log10 / 10**x are uninterpreted functions (binning is proved in log space; monotonicity of log10 is the "
               "mathematical fact connecting it to the logarithmic grid)",
               "numba executes the Python semantics of the prange body per iteration in any order/interleaving (interference analysis)",
               "indicator layers (one per point, value 1 at that point) are added by the harness to observe which bin a point landed in"]
BOUNDS = {"quick": {"kernel": "N <= 3 symbolic points, nx, ny in {1,2,3}, <= 2 symbolic value layers, symbolic limits",
                    "wrapper": "N <= 2 points, resolution 1..2, limits explicit / automatic / mixed / Quantity, sum / mean / default layer, lin / log x",
                    "interference": "2 iterations, nx=ny=2; replay: compiled kernel, all threads, 2e6 points, 3x3 bins, 8 calls"},
          "thorough": {"as": "quick with N <= 4 in the kernel and N <= 3 in the wrapper"}}
FLOOR = {"quick": 800, "thorough": 3000}
SHADOW_EVERY = 5
LIMITS = {"quick": {"max_paths": 3000, "budget_s": 300}, "thorough": {"max_paths": 30000, "budget_s": 1500}}


def EXTRA_STUBS():
    from symx import install
    PU = install.mod("osyris.plot.utils")
    from harness import common as C_
    return {"osyris.plot.utils": dict(C_.njit_helpers_as_python("osyris.plot.utils", skip=("evaluate_on_grid", "hist2d")), prange=range),
            "osyris.plot.histogram2d": {"hist2d": PU.hist2d.py_func}}


STUBS = ["osyris.plot.utils.prange -> range (sequential semantics of one schedule; schedule independence is the interference analysis)",
         "osyris.plot.histogram2d.hist2d -> hist2d.py_func (the Python source of the numba kernel)"]


def configs(tier):
    out = []
    nmax = 3 if tier == "quick" else 4
    for N in range(0, nmax + 1):
        for nx, ny in [(1, 1), (2, 1), (2, 2), (3, 2), (1, 3)]:
            if N >= 3 and (nx, ny) not in ((2, 2), (3, 2)):
                continue
            for L in ((0, 1, 2) if N <= 2 else (1,)):
                c = dict(kind="kernel", N=N, nx=nx, ny=ny, L=L)
                if N >= 3:
                    c["_split"] = 4
                out.append(c)
    wn = 2 if tier == "quick" else 3
    for N in range(1, wn + 1):
        for res in (1, 2):
            for lim in ("explicit", "auto", "mixed", "quantity"):
                for op in ("sum", "mean", "default", "layer-mean"):
                    for logx in (False, True):
                        if logx and (lim in ("mixed", "quantity") or op in ("layer-mean",)):
                            continue
                        if N == wn and wn == 3 and res == 1:
                            continue
                        c = dict(kind="wrapper", N=N, res=res, lim=lim, op=op, logx=logx)
                        if N >= 2 and res == 2:
                            c["_split"] = 3
                        out.append(c)
    for op in ("sum", "mean"):
        out.append(dict(kind="wrapper", N=2, res=1, lim="explicit", op=op, logx=False, warm=True))
    # the automatic range is taken over the points with FINITE coordinates: the helpers histogram2d calls for it, on arrays
    # holding symbolic finite values next to inf / -inf / nan
    for pat in ("inf", "-inf", "nan", "inf+-inf+nan"):
        out.append(dict(kind="finite-range", pat=pat))
    out.append(dict(kind="wrapper", N=1, res=2, lim="degenerate", op="default", logx=False))
    out.append(dict(kind="wrapper", N=2, res=2, lim="degenerate", op="sum", logx=False))
    out.append(dict(kind="interference", _noshadow=True))     # its concrete mode is a stress run, not a path replay
    return out


def _edges(m, lo, hi, n):
    d = (hi - lo) / n
    return [lo + d * k for k in range(n + 1)]


def _assignment_checks(m, tag, N, nx, ny, X, Y, ex, ey, ind, counts, sums, V):
    """ind[i][iy][ix] in {0.0, 1.0}: indicator layer of point i after binning (concrete on the path)."""
    fs = []
    nass = 0
    assigned = []
    for i in range(N):
        hits = [(iy, ix) for iy in range(ny) for ix in range(nx) if ind[i][iy][ix] not in (0.0, 0)]
        ok = len(hits) <= 1 and all(ind[i][iy][ix] in (1.0, 1) for iy, ix in hits)
        if not m.require(ok, "a point contributes to at most one bin, once", key=f"once:{tag}"):
            return
        sx, sy = ex[-1] - ex[0], ey[-1] - ey[0]
        inx_strict = m.And(m.gt_b(X[i], ex[0], sx), m.lt_b(X[i], ex[-1], sx))
        iny_strict = m.And(m.gt_b(Y[i], ey[0], sy), m.lt_b(Y[i], ey[-1], sy))
        if hits:
            iy, ix = hits[0]
            nass += 1
            assigned.append((iy, ix))
            fs.append(m.And(m.ge_b(X[i], ex[ix], sx), m.le_b(X[i], ex[ix + 1], sx), m.ge_b(Y[i], ey[iy], sy), m.le_b(Y[i], ey[iy + 1], sy)))
        else:
            assigned.append(None)
            fs.append(m.Not(m.And(inx_strict, iny_strict)))
    m.check("every point is in the bin the kernel put it in, and points left out are not inside the range", m.And(fs),
            key=f"bin:{tag}")
    # counts and sums
    want_counts = [[sum(1 for a in assigned if a == (iy, ix)) for ix in range(nx)] for iy in range(ny)]
    got_counts = np.asarray(counts).astype(object).reshape(ny, nx).tolist() if counts is not None else None
    if got_counts is not None:
        m.require(all(int(got_counts[iy][ix]) == want_counts[iy][ix] for iy in range(ny) for ix in range(nx)),
                  "counts equal the number of points per bin", key=f"counts:{tag}")
        m.require(sum(sum(int(c) for c in row) for row in got_counts) == nass, "totals are conserved", key=f"total:{tag}")
    return assigned, want_counts


def body(m, cfg):
    kind = cfg["kind"]
    if kind == "kernel":
        return _kernel(m, cfg)
    if kind == "wrapper":
        return _wrapper(m, cfg)
    if kind == "finite-range":
        return _finite_range(m, cfg)
    return _interference(m, cfg)


def _finite_range(m, cfg):
    from symx import install
    from symx.arr import sarray
    H2 = install.mod("osyris.plot.histogram2d")
    special = {"inf": [float("inf")], "-inf": [float("-inf")], "nan": [float("nan")],
               "inf+-inf+nan": [float("inf"), float("-inf"), float("nan")]}[cfg["pat"]]
    a, b = m.real("p0"), m.real("p1")
    if m.symbolic:
        x = sarray([a] + special[:1] + [b] + special[1:], "float64")
    else:
        x = np.array([a] + special[:1] + [b] + special[1:], dtype=float)
    lo, hi = H2.finmin(x), H2.finmax(x)
    A, Bt = m.t(a), m.t(b)
    tag = f"finite-range:{cfg['pat']}"
    from symx import core as _core
    for nm, v in (("min", lo), ("max", hi)):
        if not _core.is_sym(v) and not np.isfinite(float(v)):
            m.fail(f"the automatic {nm} is not finite although finite points exist", key=f"auto-{nm}:{tag}", info=str(v))
            return
    m.check("the lower end of the automatic range is the smallest FINITE coordinate",
            m.And(m.close(m.t(lo), _ite(m, A < Bt, A, Bt), exact=True)), key=f"auto-min:{tag}")
    m.check("the upper end of the automatic range is the largest FINITE coordinate",
            m.And(m.close(m.t(hi), _ite(m, A > Bt, A, Bt), exact=True)), key=f"auto-max:{tag}")


def _kernel(m, cfg):
    from symx import install
    from symx.arr import sarray
    PU = install.mod("osyris.plot.utils")
    N, nx, ny, L = cfg["N"], cfg["nx"], cfg["ny"], cfg["L"]
    tag = f"kernel:N{N}:{nx}x{ny}:L{L}"
    x = m.array("x", (N,), "float64")
    y = m.array("y", (N,), "float64")
    vals = m.array("v", (L, N), "float64") if L and N else np.zeros((L, N))
    xmin, xmax, ymin, ymax = m.real("xmin"), m.real("xmax"), m.real("ymin"), m.real("ymax")
    m.assume(m.lt(xmin, xmax))
    m.assume(m.lt(ymin, ymax))
    indic = np.eye(N)
    if m.symbolic:
        allv = sarray([list(r) for r in np.asarray(vals, dtype=object).reshape(L, N).tolist()] + indic.tolist(), "float64") \
            if (L + N) and N else np.zeros((L + N, N))
        if not hasattr(allv, "shape") or allv.shape != (L + N, N):
            allv = np.zeros((L + N, N))
        out, counts = PU.hist2d.py_func(x, y, allv, xmin, xmax, nx, ymin, ymax, ny)
    else:
        allv = np.concatenate([np.asarray(vals, dtype=float).reshape(L, N), indic], axis=0)
        import numba
        nt = numba.get_num_threads()
        numba.set_num_threads(1)       # one schedule: the sequential one (schedule independence is the interference analysis)
        try:
            out, counts = PU.hist2d(np.asarray(x, dtype=float), np.asarray(y, dtype=float), allv, float(xmin), float(xmax), nx,
                                    float(ymin), float(ymax), ny)
        finally:
            numba.set_num_threads(nt)
    X, Y = m.vals(x), m.vals(y)
    ex = _edges(m, m.t(xmin), m.t(xmax), nx)
    ey = _edges(m, m.t(ymin), m.t(ymax), ny)
    m.require(tuple(np.shape(out)) == (L + N, ny, nx) and tuple(np.shape(counts)) == (ny, nx), "result shapes", key=f"shape:{tag}")
    O = np.asarray(out, dtype=object)
    ind = [[[O[L + i][iy][ix] for ix in range(nx)] for iy in range(ny)] for i in range(N)]
    r = _assignment_checks(m, tag, N, nx, ny, X, Y, ex, ey, ind, counts, None, None)
    if r is None:
        return
    assigned, _ = r
    V = [[m.t(t) for t in row] for row in (np.asarray(vals, dtype=object).reshape(L, N).tolist() if L and N else [])]
    fs = []
    for l in range(L):
        for iy in range(ny):
            for ix in range(nx):
                ex_sum = m.t(0.0)
                sc = m.t(0.0)
                for i in range(N):
                    if assigned[i] == (iy, ix):
                        ex_sum = ex_sum + V[l][i]
                        sc = sc + m.abs(V[l][i])
                fs.append(m.close(m.t(O[l][iy][ix]), ex_sum, scale=sc + 0))
    if fs:
        m.check("each value layer holds the per-bin sum of its values", m.And(fs), key=f"sum:{tag}")
    m.observe("out", out)


def _oracle_limits(m, cfg, vals, lo_given, hi_given):
    """Range the histogram must span, from the property statement: the requested limits, or the
    finite data range padded by 5% of its width on each automatic side (degenerate ranges widened)."""
    lo_auto, hi_auto = lo_given is None, hi_given is None
    lo, hi = lo_given, hi_given
    if lo_auto:
        lo = vals[0]
        for v in vals[1:]:
            lo = _ite(m, v < lo, v, lo)
    if hi_auto:
        hi = vals[0]
        for v in vals[1:]:
            hi = _ite(m, v > hi, v, hi)
    if m.decide(m.eq(lo, hi)):
        if m.decide(m.eq(lo, 0)):
            lo, hi = m.t(-0.1), m.t(0.1)
        else:
            lo, hi = lo - 0.05 * m.abs(lo), hi + 0.05 * m.abs(hi)
    d = hi - lo
    if lo_auto:
        lo = lo - 0.05 * d
    if hi_auto:
        hi = hi + 0.05 * d
    return lo, hi


def _ite(m, c, a, b):
    if m.symbolic:
        import z3
        return z3.If(c, a, b)
    return a if c else b


def _wrapper(m, cfg):
    import osyris
    from osyris import Array
    from osyris.core.layer import Layer
    from symx import core
    N, res, lim, op, logx = cfg["N"], cfg["res"], cfg["lim"], cfg["op"], cfg["logx"]
    tag = f"wrapper:{lim}:{op}:{'log' if logx else 'lin'}" + (":second-call" if cfg.get("warm") else "")
    xr = m.array("x", (N,), "float64")
    yr = m.array("y", (N,), "float64")
    if logx:
        for t in m.vals(xr):
            m.assume(m.gt(t, 0))
    if lim == "degenerate":
        # all points at one place: the automatic range must be widened
        for t in m.vals(xr)[1:]:
            m.assume(m.eq(t, m.vals(xr)[0]))
    x = Array(xr, unit="cm", name="xs")
    y = Array(yr, unit="g", name="ys")
    kw = dict(resolution=res, plot=False, logx=logx)
    ureg = osyris.units._ureg
    given = {}
    if lim in ("explicit", "quantity", "mixed"):
        names = ("xmin", "xmax", "ymin", "ymax") if lim != "mixed" else ("xmin", "ymax")
        for nme in names:
            v = m.real("L" + nme)
            given[nme] = v
        if "xmin" in given and "xmax" in given:
            m.assume(m.lt(given["xmin"], given["xmax"]))
        if "ymin" in given and "ymax" in given:
            m.assume(m.lt(given["ymin"], given["ymax"]))
        if logx:
            for nme in ("xmin", "xmax"):
                if nme in given:
                    m.assume(m.gt(given[nme], 0))
        if lim == "mixed":
            # a requested limit on one side only must be consistent with the data range on the other
            m.assume(m.And([m.lt(given["xmin"], t) for t in m.vals(xr)]))
            m.assume(m.And([m.gt(given["ymax"], t) for t in m.vals(yr)]))
        for nme, v in given.items():
            if lim == "quantity":
                kw[nme] = ureg.Quantity(v, "m" if nme[0] == "x" else "kg")
            else:
                kw[nme] = v
    layers = []
    wv = None
    if op in ("sum", "mean", "layer-mean"):
        wraw = m.array("w", (N,), "float64")
        wv = [m.t(t) for t in m.vals(wraw)]
        if op == "layer-mean":
            layers.append(Layer(Array(wraw, unit="K", name="temp"), operation="mean"))
            kw["operation"] = "sum"
        else:
            layers.append(Layer(Array(wraw, unit="K", name="temp")))
            kw["operation"] = op
    nuser = len(layers)
    if nuser:
        for i in range(N):
            e = np.zeros(N)
            e[i] = 1.0
            layers.append(Layer(Array(e, name=f"ind{i}"), operation="sum"))
    f_x = {"quantity": 100.0}.get(lim, 1.0)
    if logx and m.symbolic:
        # strict monotonicity of log10, instantiated pairwise on the terms that occur
        raws = [m.t(t) for t in m.vals(xr)] + [m.t(given[k]) * f_x for k in ("xmin", "xmax") if k in given]
        logs = [core.LOG10(r) for r in raws]
        import z3
        for (a, la), (b, lb) in itertools.combinations(zip(raws, logs), 2):
            core.Ctx.cur.add(z3.And((a < b) == (la < lb), (a == b) == (la == lb)))
    def _warm():
        # the call under check is the SECOND call given the same Layer objects: the first asked for the other operation
        if cfg.get("warm"):
            osyris.histogram2d(x, y, *layers, **dict(kw, operation=("mean" if kw.get("operation") == "sum" else "sum")))
    try:
        if m.symbolic:
            _warm()
            p = osyris.histogram2d(x, y, *layers, **kw)
    except AttributeError as e:
        m.fail(f"histogram2d raises AttributeError: {e}", key=f"raises-AttributeError:wrapper:{lim}")
        return
    if m.symbolic:
        pass
    else:
        import numba
        nt = numba.get_num_threads()
        numba.set_num_threads(1)
        try:
            _warm()
            p = osyris.histogram2d(x, y, *layers, **kw)
        except AttributeError as e:
            m.fail(f"histogram2d raises AttributeError: {e}", key=f"raises-AttributeError:wrapper:{lim}")
            return
        finally:
            numba.set_num_threads(nt)
    # ---- oracle grid
    f_x = {"quantity": 100.0}.get(lim, 1.0)
    f_y = {"quantity": 1000.0}.get(lim, 1.0)

    def tx(v):
        t = m.t(v) * f_x
        if logx:
            return core.LOG10(t) if m.symbolic else float(np.log10(t))
        return t
    X = [(core.LOG10(m.t(t)) if m.symbolic else float(np.log10(t))) if logx else m.t(t) for t in m.vals(xr)]
    Y = [m.t(t) for t in m.vals(yr)]
    xlo, xhi = _oracle_limits(m, cfg, X, tx(given["xmin"]) if "xmin" in given else None, tx(given["xmax"]) if "xmax" in given else None)
    ylo, yhi = _oracle_limits(m, cfg, Y, m.t(given["ymin"]) * f_y if "ymin" in given else None,
                              m.t(given["ymax"]) * f_y if "ymax" in given else None)
    ex = _edges(m, xlo, xhi, res)
    ey = _edges(m, ylo, yhi, res)
    # ---- bin centres
    px, py = m.vals(p.x), m.vals(p.y)
    def p10(t):
        import z3
        ts = z3.simplify(t)
        if z3.is_rational_value(ts):       # concrete exponent: numpy computes the actual power
            return core.realval(float(10.0 ** (ts.numerator_as_long() / ts.denominator_as_long())))
        return core.POW10(t)
    if logx:
        if m.symbolic:
            cx = [0.5 * (p10(ex[k]) + p10(ex[k + 1])) for k in range(res)]
        else:
            cx = [0.5 * (10.0 ** ex[k] + 10.0 ** ex[k + 1]) for k in range(res)]
    else:
        cx = [0.5 * (ex[k] + ex[k + 1]) for k in range(res)]
    cy = [0.5 * (ey[k] + ey[k + 1]) for k in range(res)]
    sx = m.abs(xlo) + m.abs(xhi)
    sy = m.abs(ylo) + m.abs(yhi)
    m.check("returned x are the bin centres of the grid spanning the range",
            m.And([m.close(a, b, scale=(None if logx else sx)) for a, b in zip(px, cx)]) if len(px) == res else m.And(False),
            key=f"centres-x:{tag}")
    m.check("returned y are the bin centres", m.And([m.close(a, b, scale=sy) for a, b in zip(py, cy)]) if len(py) == res else m.And(False),
            key=f"centres-y:{tag}")
    # ---- layers
    if not m.require(len(p.layers) == max(len(layers), 1), "one output layer per input layer (or the default counting layer)",
                     key=f"layers:{tag}"):
        return

    def data_mask(lay):
        d = lay["data"]
        return np.asarray(d.data if not hasattr(d.data, "_ld") else d.data, dtype=object).reshape(res, res), \
            np.broadcast_to(np.asarray(d.mask, dtype=bool), (res, res))
    if nuser == 0:
        D, M = data_mask(p.layers[0])
        # default layer: counts.  Each bin value is a concrete integer on the path.
        cnt = [[(0 if M[iy][ix] else D[iy][ix]) for ix in range(res)] for iy in range(res)]
        ok = all((not core.is_sym(c)) and float(c) == int(float(c)) for row in cnt for c in row)
        if not m.require(ok, "default layer holds integer counts", key=f"default-counts:{tag}"):
            return
        total = sum(int(float(c)) for row in cnt for c in row)
        fs = []
        for iy in range(res):
            for ix in range(res):
                strict = [m.And(m.gt_b(X[i], ex[ix], sx), m.lt_b(X[i], ex[ix + 1], sx), m.gt_b(Y[i], ey[iy], sy), m.lt_b(Y[i], ey[iy + 1], sy))
                          for i in range(N)]
                closed = [m.And(m.ge_b(X[i], ex[ix], sx), m.le_b(X[i], ex[ix + 1], sx), m.ge_b(Y[i], ey[iy], sy), m.le_b(Y[i], ey[iy + 1], sy))
                          for i in range(N)]
                c = int(float(cnt[iy][ix]))
                fs.append(m.And(_count(m, strict) <= c, c <= _count(m, closed)))
                m.require(bool(M[iy][ix]) == (c == 0), "bins without points are masked", key=f"mask:{tag}")
        inrange_strict = [m.And(m.gt_b(X[i], ex[0], sx), m.lt_b(X[i], ex[-1], sx), m.gt_b(Y[i], ey[0], sy), m.lt_b(Y[i], ey[-1], sy))
                          for i in range(N)]
        inrange_closed = [m.And(m.ge_b(X[i], ex[0], sx), m.le_b(X[i], ex[-1], sx), m.ge_b(Y[i], ey[0], sy), m.le_b(Y[i], ey[-1], sy))
                          for i in range(N)]
        fs.append(m.And(_count(m, inrange_strict) <= total, total <= _count(m, inrange_closed)))
        m.check("default layer: points per bin, totals conserved", m.And(fs), key=f"default-counts:{tag}")
        m.require(p.layers[0]["name"] == "counts", "default layer is named counts", key=f"default-name:{tag}")
        return
    ind = []
    for i in range(N):
        D, M = data_mask(p.layers[nuser + i])
        ind.append([[(0.0 if M[iy][ix] else D[iy][ix]) for ix in range(res)] for iy in range(res)])
    r = _assignment_checks(m, tag, N, res, res, X, Y, ex, ey, ind, None, None, None)
    if r is None:
        return
    assigned, want_counts = r
    D, M = data_mask(p.layers[0])
    m.require(str(p.layers[0]["unit"]) == "kelvin" and p.layers[0]["name"] == "temp", "layer unit and name kept", key=f"layer-unit:{tag}")
    fs = []
    for iy in range(res):
        for ix in range(res):
            c = want_counts[iy][ix]
            if not m.require(bool(M[iy][ix]) == (c == 0), "bins without points are masked", key=f"mask:{tag}"):
                continue
            if c == 0:
                continue
            s = m.t(0.0)
            sc = m.t(0.0)
            for i in range(N):
                if assigned[i] == (iy, ix):
                    s = s + wv[i]
                    sc = sc + m.abs(wv[i])
            want = s / c if op in ("mean", "layer-mean") else s
            fs.append(m.close(m.t(D[iy][ix]), want, scale=sc))
    m.check("layer holds the per-bin sum / mean of its values", m.And(fs), key=f"layer-value:{tag}")


def _count(m, conds):
    if m.symbolic:
        import z3
        return z3.Sum([z3.If(c if isinstance(c, z3.ExprRef) else z3.BoolVal(bool(c)), 1, 0) for c in conds]) if conds else z3.IntVal(0)
    return sum(1 for c in conds if c)


def _interference(m, cfg):
    from symx import install, interfere, core
    from symx.arr import NP
    PU = install.mod("osyris.plot.utils")
    tag = "interference"
    if not m.symbolic:
        return _stress(m, PU, tag)
    x = m.array("x", (2,), "float64")
    y = m.array("y", (2,), "float64")
    v = m.array("v", (1, 2), "float64")
    xmin, xmax, ymin, ymax = m.real("xmin"), m.real("xmax"), m.real("ymin"), m.real("ymax")
    m.assume(m.lt(xmin, xmax))
    m.assume(m.lt(ymin, ymax))
    r = interfere.run_two_iterations(PU.hist2d.py_func, (x, y, v, xmin, xmax, 2, ymin, ymax, 2),
                                     dict(np=NP, int=core.IntLike, prange=range))
    if r is None:
        m.ok("the kernel has no parallel loop: the result cannot depend on a schedule")
        return
    log, env, written = r
    conf = interfere.conflicts(log)
    if conf:
        (a, b) = conf[0]
        m.fail(f"iteration {a[0]} writes {a[2]}{list(a[3])} which iteration {b[0]} {'reads' if b[1] == 'R' else 'writes'}: "
               "unsynchronised read-modify-write in a prange loop, the result depends on the interleaving",
               key="schedule:prange-accumulation", info={"shared_arrays": written})
    else:
        m.ok("no element is written by one iteration and accessed by the other on this path")


def _stress(m, PU, tag):
    """Replay of an interference witness: the compiled kernel, all threads, many points in few bins."""
    import numba
    rng = np.random.default_rng(int(os.environ.get("VERIF_SEED", "0") or 0))
    n = 2_000_000
    x = rng.random(n)
    y = rng.random(n)
    vals = np.ones((1, n))
    lost = 0
    for rep in range(8):
        out, counts = PU.hist2d(x, y, vals, 0.0, 1.0, 3, 0.0, 1.0, 3)
        if int(counts.sum()) != n or abs(float(out.sum()) - n) > 0.5:
            lost += 1
    if lost:
        m.fail(f"compiled kernel with {numba.get_num_threads()} threads lost updates in {lost}/8 calls", key="schedule:prange-accumulation")
    else:
        m.ok("compiled kernel exact in 8 calls")
