"""C16 -- sub-domain extraction returns exactly the rows inside the region."""
import itertools

import numpy as np

from harness import common as C

PROP = "C16"
FILES = ["src/osyris/spatial/subdomain.py", "src/osyris/core/datagroup.py", "src/osyris/core/dataset.py"]
FUNCTIONS = ["osyris.spatial.subdomain.extract_sphere", "osyris.spatial.subdomain.extract_box",
             "osyris.core.datagroup.Datagroup.get/__getitem__(mask)", "osyris.core.dataset.Dataset.__setitem__",
             "Vector/Array comparison and & operators, Vector.norm"]
ASSUMPTIONS = ["rows whose distance equals the radius / half-size to within relative 1e-9 may go either way when a unit conversion is involved; "
               "with identical units the boundary rule (< for the sphere, <= for the box) is exact",
               "payload values pairwise distinct (provenance)"]
BOUNDS = {"quick": {"rows": "n <= 2 per group", "groups": "mesh (+ hydro-like group without positions, same or other shape) + part with own positions; "
                                                          "layouts named as the loader names them (mesh/part/sink) and as the legacy layout did (amr/hydro)",
                    "symbolic": "all positions, origin, radius / dx,dy,dz, payloads", "units": "positions cm; origin and sizes in cm, au, pc",
                    "ndim": "3"},
          "thorough": {"as": "quick plus n = 3 rows for the sphere"}}
FLOOR = {"quick": 300, "thorough": 800}
SHADOW_EVERY = 7
LIMITS = {"quick": {"max_paths": 1500, "budget_s": 200}, "thorough": {"max_paths": 8000, "budget_s": 900}}

LAYOUTS = {
    "aux-first": dict(mesh="mesh", extra="part", order="aux-first"),     # groups in another insertion order
    "loader": dict(mesh="mesh", extra="part"),
    "legacy": dict(mesh="amr", extra="hydro"),
    "mesh-only": dict(mesh="mesh", extra=None),
    "part-only": dict(mesh=None, extra="part"),
}


def configs(tier):
    out = []
    for region in ("sphere", "box"):
        for layout in LAYOUTS:
            for uo, us in [("cm", "cm"), ("au", "cm"), ("cm", "pc"), ("au", "au")]:
                for n in (1, 2):
                    # the box forks 27 ways per row and group: two rows only for single-position layouts
                    if region == "box" and n == 2 and layout in ("loader", "legacy", "aux-first"):
                        continue
                    if region == "box" and n == 2 and tier == "quick" and \
                            (layout, uo, us) not in (("mesh-only", "cm", "cm"), ("part-only", "au", "cm")):
                        continue
                    if region == "box" and tier == "quick" and layout in ("loader", "legacy", "aux-first") and \
                            (uo, us) not in (("cm", "cm"), ("au", "cm")):
                        continue
                    c = dict(region=region, layout=layout, uo=uo, us=us, n=n, nopos="same")
                    if layout == "aux-first" and (uo, us) != ("cm", "cm") and tier == "quick":
                        continue
                    if region == "box" and (n == 2 or layout in ("loader", "legacy", "aux-first")):
                        c["_split"] = 4
                    out.append(c)
        out.append(dict(region=region, layout="loader", uo="cm", us="cm", n=(2 if region == "sphere" else 1), nopos="other",
                        _split=(4 if region == "box" else 0)))
        out.append(dict(region=region, layout="legacy", uo="cm", us="cm", n=1, nopos="other"))
    out.append(dict(region="box", layout="mesh-only", uo="cm", us="au", n=1, nopos="same", us_y="cm", us_z="m", _split=3))
    # the extraction under check is the SECOND one made with the same radius / size / origin objects, which were updated in place
    # (radius *= 3; for the box dx *= 3 and origin *= 2) after the first: nothing converted or selected for the first call may be reused
    for region, uo, us in (("sphere", "cm", "pc"), ("sphere", "cm", "cm"), ("box", "cm", "pc")):
        out.append(dict(region=region, layout="mesh-only", uo=uo, us=us, n=1, nopos="same", warm=True, _split=(4 if region == "box" else 0)))
    if tier != "quick":
        out.append(dict(region="sphere", layout="loader", uo="au", us="pc", n=3, nopos="same", _split=4))
    return out


def body(m, cfg):
    import warnings
    import osyris
    from osyris import Array, Vector, Datagroup, Dataset
    region, layout, uo, us, n = cfg["region"], cfg["layout"], cfg["uo"], cfg["us"], cfg["n"]
    L = LAYOUTS[layout]
    tag = f"{region}:{layout}:{'same-unit' if uo == us == 'cm' else 'converted'}"
    exact = (uo == "cm" and us == "cm")
    fo, fs = C.fd(uo)[0], C.fd(us)[0]
    ds = Dataset()
    ds.meta["time"] = 3.0
    groups = {}
    if L["mesh"]:
        g = Datagroup()
        g["position"] = Vector(*[m.array("mp" + c, (n,), "float64") for c in "xyz"], unit="cm")
        g["density"] = Array(m.array("rho", (n,), "float64"), unit="g/cm**3")
        g["velocity"] = Vector(*[m.array("mv" + c, (n,), "float64") for c in "xyz"], unit="cm/s")
        m.distinct(g["density"]._array)
        ds[L["mesh"]] = g
        groups[L["mesh"]] = ("own", g)
        # a group without positions: rows are the mesh rows (same shape) or something else (other shape)
        h = Datagroup()
        hn = n if cfg["nopos"] == "same" else n + 1
        h["temperature"] = Array(m.array("T", (hn,), "float64"), unit="K")
        m.distinct(h["temperature"]._array)
        ds["aux"] = h
        groups["aux"] = ("mesh" if hn == n else "skip", h)
    if L["extra"]:
        p = Datagroup()
        p["position"] = Vector(*[m.array("pp" + c, (n,), "float64") for c in "xyz"], unit="cm")
        p["mass"] = Array(m.array("pm", (n,), "float64"), unit="g")
        m.distinct(p["mass"]._array)
        ds[L["extra"]] = p
        groups[L["extra"]] = ("own", p)
    if L.get("order") == "aux-first":
        # the position-less group (and the particles) come before the mesh in the dataset
        for k in ["aux", L["extra"], L["mesh"]]:
            if k in ds:
                g_ = ds.pop(k)
                ds[k] = g_
    origin = Vector(*[m.real("o" + c) for c in "xyz"], unit=uo)
    ov = [m.t(origin.x.values) * fo, m.t(origin.y.values) * fo, m.t(origin.z.values) * fo]
    if region == "sphere":
        R = m.real("R", positive=True)
        sizes = [m.t(R) * fs]
        args = dict(radius=Array(R, unit=us), origin=origin)
    else:
        sz = [m.real("d" + c, positive=True) for c in "xyz"]
        uss = [us, cfg.get("us_y", us), cfg.get("us_z", us)]           # the three sizes may come in different length units
        sizes = [m.t(s) * C.fd(u)[0] for s, u in zip(sz, uss)]
        args = dict(dx=Array(sz[0], unit=uss[0]), dy=Array(sz[1], unit=uss[1]), dz=Array(sz[2], unit=uss[2]), origin=origin)
    before = {}
    for name, (_, g) in groups.items():
        before[name] = {k: ([m.vals(c._array) for c in (C.vcomps(g[k]).values() if C.is_vec(g[k]) else [g[k]])], str(g[k].unit), id(g[k]))
                        for k in g.keys()}
    f = osyris.extract_sphere if region == "sphere" else osyris.extract_box
    if cfg.get("warm"):
        tag += ":after-inplace-update"
        with warnings.catch_warnings():
            warnings.simplefilter("ignore")
            f(ds, **args)
        first = "radius" if region == "sphere" else "dx"
        a0 = args[first]
        a0 *= 3.0
        m.require(args[first] is a0, "in-place update keeps the object", key=f"harness:{tag}")
        sizes[0] = sizes[0] * 3.0
        if region == "box":                 # (for the sphere a second moving quantity makes the distance queries too hard for nlsat)
            origin *= 2.0
            ov = [t * 2.0 for t in ov]
    try:
        with warnings.catch_warnings():
            warnings.simplefilter("ignore")
            sub = f(ds, **args)
    except KeyError as e:
        m.fail(f"extraction raises KeyError {e} for a dataset whose mesh group is named '{L['mesh']}'", key=f"raises-KeyError:{region}:{layout}")
        return
    if not m.require(isinstance(sub, Dataset) and sub is not ds, "returns a new Dataset", key=f"type:{tag}"):
        return
    m.require(sub.meta == ds.meta and sub.meta is not ds.meta, "metadata carried over", key=f"meta:{tag}")
    mesh_pos = ds[L["mesh"]]["position"] if L["mesh"] else None
    for name, (posrule, g) in groups.items():
        if posrule == "skip" or (posrule == "mesh" and mesh_pos is None):
            m.require(name not in sub, "group without usable positions is left out", key=f"skip:{tag}")
            continue
        pos = g["position"] if posrule == "own" else mesh_pos
        P = [[m.t(t) for t in m.vals(c._array)] for c in C.vcomps(pos).values()]      # cm
        inside, clearly_in, clearly_out = [], [], []
        for r in range(n):
            d = [P[k][r] - ov[k] for k in range(3)]
            if region == "sphere":
                r2 = d[0] * d[0] + d[1] * d[1] + d[2] * d[2]
                R2 = sizes[0] * sizes[0]
                if exact:
                    clearly_in.append(r2 < R2)
                    clearly_out.append(m.Not(r2 < R2))
                else:
                    band = m.tol_term() * 4 * (r2 + R2)
                    clearly_in.append(r2 < R2 - band)
                    clearly_out.append(r2 > R2 + band)
            else:
                ins, outs = [], []
                for k in range(3):
                    half = sizes[k] * 0.5
                    if exact:
                        ins.append(m.And(d[k] <= half, d[k] >= -half))
                        outs.append(m.Or(d[k] > half, d[k] < -half))
                    else:
                        band = m.tol_term() * (m.abs(P[k][r]) + m.abs(ov[k]) + half)
                        ins.append(m.And(d[k] <= half - band, d[k] >= -half + band))
                        outs.append(m.Or(d[k] > half + band, d[k] < -half - band))
                clearly_in.append(m.And(ins))
                clearly_out.append(m.Or(outs))
        # which rows did osyris keep?  (provenance of the distinct payload member)
        pay = [k for k in g.keys() if k != "position" and not C.is_vec(g[k])][0]
        src = before[name][pay][0][0]
        kept = []
        if name in sub:
            for t in m.vals(sub[name][pay]._array):
                hit = [j for j, s in enumerate(src) if C.same_terms(m, [t], [s])]
                kept.append(hit[0] if hit else None)
            if not m.require(None not in kept and kept == sorted(set(kept)), "kept rows are distinct source rows in order",
                             key=f"rows:{tag}:{name}"):
                continue
        fs_ = []
        for r in range(n):
            fs_.append(m.Not(clearly_out[r]) if r in kept else m.Not(clearly_in[r]))
        m.check(f"group {name}: exactly the rows inside the region are kept", m.And(fs_), key=f"selection:{tag}:{name}")
        if name in sub:
            m.require(len(kept) > 0, "groups with no row inside are omitted", key=f"empty-group:{tag}")
            sg = sub[name]
            m.require(list(sg.keys()) == list(g.keys()), "all variables of the group are kept", key=f"members:{tag}:{name}")
            for k in g.keys():
                cols0 = before[name][k][0]
                comps = list(C.vcomps(sg[k]).values()) if C.is_vec(sg[k]) else [sg[k]]
                ok = len(comps) == len(cols0) and all(
                    C.same_terms(m, m.vals(c._array), [col[j] for j in kept]) for c, col in zip(comps, cols0))
                m.require(ok, f"member {k} row-aligned with the selection", key=f"aligned:{tag}:{name}:{k}")
                m.require(str(sg[k].unit) == before[name][k][1], "unit kept", key=f"unit:{tag}:{name}:{k}")
    # input untouched
    groups = {k: groups[k] for k in ds.keys()} if set(ds.keys()) == set(groups) else groups
    for name, (_, g) in groups.items():
        ok = list(g.keys()) == list(before[name].keys())
        for k in g.keys():
            comps = list(C.vcomps(g[k]).values()) if C.is_vec(g[k]) else [g[k]]
            ok = ok and id(g[k]) == before[name][k][2] and str(g[k].unit) == before[name][k][1] and \
                all(C.same_terms(m, m.vals(c._array), col) for c, col in zip(comps, before[name][k][0]))
        m.require(ok, "input dataset unchanged", key=f"input-changed:{tag}")
    m.require(list(ds.keys()) == list(groups.keys()), "input groups unchanged", key=f"input-changed:{tag}")
